"""One generic iteration of each lexer state function, by abstract interpretation on a symbolic
query: which lexemes produce which tokens, where blank space is skipped, what is an error."""

from __future__ import annotations

import ast

from typing import Any
from typing import Dict
from typing import List
from typing import Optional
from typing import Tuple

from ..absctx import Unsupported
from ..absint import Interp
from ..absval import *  # noqa: F403
from ..harness import describe
from ..harness import paths
from ..model import AnalysisError
from ..model import Model
from ..numeric import Lin


class Step:
    """One path through one iteration of a lexer state."""

    def __init__(self) -> None:
        self.prefix: str = ""  # characters fixed at pos, pos+1, ... (contiguous from pos)
        self.excluded: Dict[int, set] = {}  # offset -> characters known not to be there
        self.at_end: Optional[bool] = None  # pos == len(query)
        self.startswith: List[Tuple[str, bool]] = []  # (constant, truth) tested at pos
        self.regex: List[Tuple[str, bool, Any]] = []  # (pattern, matched, offset-form)
        self.tokens: List[Tuple[str, Any]] = []  # (type, value description)
        self.error: Optional[str] = None
        self.start_is_pos_after: Optional[bool] = None  # the state leaves start == pos (entry invariant of the next state)
        self.raised_exc: Any = None
        self.next_fi: Any = None
        self.error_av: Any = None  # the message as built (abstract value) and the path context, for C20's one-line rule
        self.ctx: Any = None
        self.next_state: Optional[str] = None
        self.raised: Optional[str] = None
        self.consumed: Any = None
        self.progress: Optional[bool] = None  # the path condition entails that pos grew by at least one character
        self.in_range: Optional[bool] = None  # the path condition entails pos <= len(query) after the step
        self.beyond_end: Optional[bool] = None  # the path condition entails pos > len(query) after the step
        self.filter_depth_delta: Any = None
        self.stack_ops: List[str] = []
        self.skipped_blank = False
        self.func_after: Any = None  # function-call paren counters after the step
        self.brackets_after: Any = None  # opening brackets still open after the step

    def show(self) -> Dict[str, Any]:
        return {k: v for k, v in self.__dict__.items() if v not in (None, [], {}, "", False)}


def lexer_iteration(model: Model, state: str, filter_depth: int = 0, in_function: Any = False, bracket_top: Optional[str] = None, beyond_end: bool = False) -> List[Step]:
    lexmod = model.module("lex")
    lci = model.cls("lex.Lexer")
    if state not in lexmod.functions and state not in lexmod.assigns:
        raise AnalysisError(f"anchor vanished: lex.{state}")

    def body(it: Interp) -> Any:
        q = it.new_str("query")
        n = Lin.var(q.len_var)
        lx = it.instantiate(lci, [q], {}, None)
        p = it.new_int("pos", 0)
        if beyond_end:
            # the pointer has been moved past the end of the text by an earlier step (pos == len(query) + 1)
            it.ctx.assume_le0(p.lin - n - Lin.k(1))
            it.ctx.assume_le0(n + Lin.k(1) - p.lin)
        else:
            it.ctx.assume_le0(p.lin - n)
        lx.attrs["pos"] = p
        lx.attrs["start"] = p
        lx.attrs["filter_depth"] = Const(filter_depth)
        if in_function:
            lx.attrs["func_call_stack"] = it.new_list([Const(int(in_function))])
        if bracket_top:
            lx.attrs["bracket_stack"] = it.new_list([PyTuple((Const(bracket_top), Const(0)))])
        st = it.module_global(lexmod, state)
        if isinstance(st, FuncV):
            it.hooks["__while_once__"] = {st.fi.qualname}
        r = it.call(st, [lx], {})
        return r, lx, p, q, it

    runs = paths(model, body, limit=6000)
    out: List[Step] = []
    for run in runs:
        s = Step()
        ctx = run.ctx
        if run.kind == "raise":
            s.raised = run.exc_name()
            s.raised_exc, s.ctx = run.value, ctx
            out.append(s)
            continue
        r, lx, p, q, it = run.value
        st_, ps_ = lx.attrs.get("start"), lx.attrs.get("pos")
        if isinstance(st_, IntV) and isinstance(ps_, IntV):
            d_ = st_.lin - ps_.lin
            s.start_is_pos_after = d_.is_const() and d_.const == 0
        elif isinstance(st_, Const) and isinstance(ps_, Const):
            s.start_is_pos_after = st_.value == ps_.value
        # characters fixed relative to pos
        fixed: Dict[int, str] = {}
        for (sid, lkey), ch in it.host.chars.items():
            if sid != q.id:
                continue
            (coefs, const) = lkey
            pv = p.lin.vars()[0]
            if coefs == ((pv, 1),):
                off = const
                fx = ctx.char_fixed.get(ch.id)
                if fx is not None:
                    fixed[off] = fx
                ex = ctx.char_excl.get(ch.id)
                if ex:
                    s.excluded[off] = set(ex)
        # characters pinned by startswith(<constant>, <offset>) tests (Lexer.accept and friends)
        for key_, val_ in ctx.world.items():
            info_ = ctx.atom_info.get(key_)
            if not (info_ and info_["kind"] == "strpred" and info_["recv"] is q and info_["name"] == "startswith"):
                continue
            a_ = info_["args"]
            if not (a_ and isinstance(a_[0], Const) and isinstance(a_[0].value, str) and a_[0].value):
                continue
            off_ = 0
            if len(a_) > 1:
                if not isinstance(a_[1], IntV):
                    continue
                d_ = a_[1].lin - p.lin
                if not d_.is_const():
                    continue
                off_ = d_.const
            if val_:
                for j_, ch_ in enumerate(a_[0].value):
                    fixed.setdefault(off_ + j_, ch_)
            elif len(a_[0].value) == 1:
                s.excluded.setdefault(off_, set()).add(a_[0].value)
        k = 0
        pre = []
        while k in fixed:
            pre.append(fixed[k])
            k += 1
        s.prefix = "".join(pre)
        s.at_end = ctx.oct.entails_le0(Lin.var(q.len_var) - p.lin)
        for key, val in ctx.world.items():
            info = ctx.atom_info.get(key)
            if not info:
                continue
            if info["kind"] == "strpred" and info["recv"] is q and info["name"] == "startswith":
                a = info["args"]
                if a and isinstance(a[0], Const):
                    s.startswith.append((a[0].value, bool(val)))
            if info["kind"] == "regex" and info["subject"] is q:
                pat = info["pattern"]
                off = None
                if isinstance(info["pos"], IntV):
                    d = info["pos"].lin - p.lin
                    off = d.const if d.is_const() else d.show(ctx.names)
                s.regex.append((pat.value if isinstance(pat, Const) else describe(pat), bool(val), off))
        toks = lx.attrs["tokens"].items if isinstance(lx.attrs.get("tokens"), PyList) else []
        for t in toks:
            tt = t.attrs.get("type_")
            name = tt.member if isinstance(tt, EnumV) else describe(tt)
            if name == "ERROR":
                m = t.attrs.get("message")
                s.error = m.value if isinstance(m, Const) else describe(m)
                s.error_av, s.ctx = m, ctx
            else:
                s.tokens.append((name, describe(t.attrs.get("value"))))
        if isinstance(r, FuncV):
            s.next_fi = r.fi
            s.next_state = r.fi.name
            # closures produced by the string factory are named by their module-level alias
            for alias, expr in lexmod.assigns.items():
                try:
                    if it.module_global(lexmod, alias) is r:
                        s.next_state = alias
                except Exception:  # noqa: BLE001
                    pass
        elif isinstance(r, Term) and r.op == "loop-continues":
            s.next_state = state
        elif isinstance(r, Const) and r.value is None:
            s.next_state = None
        else:
            s.next_state = describe(r)
        newpos = lx.attrs.get("pos")
        if isinstance(newpos, IntV):
            d = newpos.lin - p.lin
            s.consumed = d.const if d.is_const() else d.show(ctx.names)
            s.progress = bool(ctx.oct.entails_le0(p.lin - newpos.lin + Lin.k(1)))
            s.in_range = bool(ctx.oct.entails_le0(newpos.lin - Lin.var(q.len_var)))
            s.beyond_end = bool(ctx.oct.entails_le0(Lin.var(q.len_var) + Lin.k(1) - newpos.lin))
        elif isinstance(newpos, Const):
            s.consumed = f"={newpos.value}"
        fd = lx.attrs.get("filter_depth")
        if isinstance(fd, Const):
            s.filter_depth_delta = fd.value - filter_depth
        s.skipped_blank = any(pat_is_blank(pt) and m for pt, m, off in s.regex if off == 0)
        fs = lx.attrs.get("func_call_stack")
        if isinstance(fs, PyList):
            s.func_after = [x.value if isinstance(x, Const) else describe(x) for x in fs.items]
        bs = lx.attrs.get("bracket_stack")
        if isinstance(bs, PyList):
            def _br(x: Any) -> Any:
                if isinstance(x, PyTuple) and x.items:
                    c0 = x.items[0]
                    if isinstance(c0, Const):
                        return c0.value
                    if isinstance(c0, SymChar) and ctx.char_fixed.get(c0.id) is not None:
                        return ctx.char_fixed[c0.id]
                return describe(x)

            s.brackets_after = [_br(x) for x in bs.items]
        out.append(s)
    return out


def pat_is_blank(pattern: str) -> bool:
    from ..automata import Lang, common_partition, from_sre
    from ..oracle import rfc9535 as R

    try:
        rx = from_sre(pattern)
    except AnalysisError:
        return False
    classes = common_partition([rx, R.blank_run])
    return not Lang.from_rx(rx, classes).minimize().divergences(Lang.from_rx(R.blank_run, classes).minimize())


# ------------------------------------------------------------------ rules
EXPECTED_FILTER_TOKENS = {
    "==": "EQ", "!=": "NE", "<=": "LE", ">=": "GE", "<": "LT", ">": "GT",
    "&&": "AND", "||": "OR", "!": "NOT", "(": "LPAREN", ")": "RPAREN", ",": "COMMA",
    "$": "ROOT", "@": "CURRENT", "true": "TRUE", "false": "FALSE", "null": "NULL",
}
EXPECTED_BRACKET_TOKENS = {"]": "RBRACKET", "*": "WILD", "?": "FILTER", ",": "COMMA", ":": "COLON"}


def fixed_lexeme(s: Step) -> Optional[str]:
    if s.error or s.raised or not s.tokens:
        return None
    if isinstance(s.consumed, int):
        if 0 < s.consumed <= len(s.prefix):
            return s.prefix[: s.consumed]
        for const, truth in s.startswith:
            if truth and len(const) == s.consumed:
                return const
    return None


def token_table(model: Model, state: str, **kw: Any) -> Tuple[Dict[str, str], List[Step]]:
    steps = lexer_iteration(model, state, **kw)
    table: Dict[str, str] = {}
    for s in steps:
        lx = fixed_lexeme(s)
        if lx is not None and len(s.tokens) == 1:
            table[lx] = s.tokens[0][0]
    return table, steps


def check_token_tables(model: Model, report: Any, rule: str, side: str) -> None:
    """side 'b-only': RFC lexeme not tokenised as expected (C03); 'a-only': extra fixed lexemes accepted (C04)."""
    for state, expected, configs in (
        ("lex_inside_filter", EXPECTED_FILTER_TOKENS, [dict(filter_depth=1, bracket_top="["), dict(filter_depth=1, bracket_top="("), dict(filter_depth=1, bracket_top="(", in_function=True)]),
        ("lex_inside_bracketed_segment", EXPECTED_BRACKET_TOKENS, [dict(filter_depth=0, bracket_top="[")]),
    ):
        table: Dict[str, str] = {}
        all_steps: List[Step] = []
        try:
            for cfg in configs:
                t, steps = token_table(model, state, **cfg)
                table.update(t)
                all_steps += steps
        except Unsupported as err:
            report.undecided(rule, f"lex.{state}", str(err))
            continue
        site = f"lex.{state}"
        if side == "b-only":
            bad = False
            for lexeme, tok in expected.items():
                if table.get(lexeme) != tok:
                    report.fail(rule, site, f"token:{lexeme}", f"'{lexeme}' is tokenised as {table.get(lexeme)!r}, expected {tok}")
                    bad = True
            if not bad:
                report.ok(rule, site, "fixed lexemes produce their tokens", detail={"table": table})
        else:
            extra = {k: v for k, v in table.items() if k not in expected}
            bad = False
            for lexeme, tok in sorted(extra.items()):
                report.fail(rule, site, f"extra-token:{lexeme}", f"'{lexeme}' is accepted as token {tok} but is not an RFC 9535 lexeme in this position")
                bad = True
            # the path on which no test succeeded must be an error
            fall = [s for s in all_steps if not s.prefix and not s.tokens and not s.raised and not s.skipped_blank and all(not t for _c, t in s.startswith) and all(not m for _p, m, _o in s.regex)]
            silent = [s for s in fall if not s.error and s.next_state == state]
            if silent:
                report.fail(rule, site, "unknown-character-ignored", "a character that starts no token is skipped silently instead of being an error")
                bad = True
            # lone '=' (and any single-character prefix of a two-character operator that is not itself an operator)
            for s in all_steps:
                if s.prefix == "=" and 1 in s.excluded and "=" in s.excluded[1] and not s.error:
                    report.fail(rule, site, "lone-equals", "a single '=' is accepted")
                    bad = True
            if not bad:
                report.ok(rule, site, "no extra fixed lexemes; unknown characters are errors", detail={"extra": extra})


def first_chars(pattern: str) -> Any:
    from ..automata import DFA, CharSet, build, from_sre, partition

    nfa = build(from_sre(pattern))
    classes = partition(nfa)
    d = DFA(nfa, classes)
    alive = d.alive()
    out = CharSet()
    for c, t in enumerate(d.trans[0]):
        if t >= 0 and alive[t]:
            out = out | classes[c]
    return out


def outcome_for_char(steps: List[Step], ch: str) -> List[Step]:
    out = []
    for s in steps:
        if s.raised:
            continue
        if s.at_end:
            continue
        if s.prefix:
            if s.prefix[0] != ch:
                continue
        elif ch in s.excluded.get(0, ()):
            continue
        ok = True
        for pat, matched, off in s.regex:
            if off != 0:
                continue
            try:
                can = first_chars(pat).contains(ord(ch))
            except AnalysisError:
                continue
            if matched and not can:
                ok = False
            if not matched and can and pat_is_blank(pat):
                ok = False
        for const, truth in s.startswith:
            if truth and not const.startswith(ch):
                ok = False
        if ok:
            out.append(s)
    return out


BLANK_EXPECT = {
    "lex_root": "error",
    "lex_segment": "skip",
    "lex_inside_bracketed_segment": "skip",
    "lex_inside_filter": "skip",
    "lex_descendant_segment": "error",
    "lex_shorthand_selector": "error",
}


def check_blank_positions(model: Model, report: Any, rule: str, side: str) -> None:
    for state, want in BLANK_EXPECT.items():
        try:
            steps = lexer_iteration(model, state, filter_depth=1 if state == "lex_inside_filter" else 0, bracket_top="[" if "inside" in state else None)
        except Unsupported as err:
            report.undecided(rule, f"lex.{state}", str(err))
            continue
        site = f"lex.{state}"
        for ch, name in ((" ", "SP"), ("\t", "HT"), ("\n", "LF"), ("\r", "CR")):
            cand = outcome_for_char(steps, ch)
            skips = [s for s in cand if s.skipped_blank and not s.error] + [s for s in cand if not s.error and not s.skipped_blank and (s.tokens or s.next_state) and not s.prefix]
            skips = [s for s in cand if s.skipped_blank and not (s.error and "whitespace" in str(s.error) and state != "lex_segment")]
            errs = [s for s in cand if s.error or s.raised]
            got = "skip" if any(s.skipped_blank and (not s.error or state == "lex_segment") for s in cand) else ("error" if errs and len(errs) == len(cand) else "other")
            key = f"blank:{state}:{name}"
            if got == want:
                report.ok(rule, site, key)
            elif want == "skip" and side == "b-only":
                report.fail(rule, site, key, f"blank space ({name}) where the grammar allows it is not skipped in {state} (outcome: {got})")
            elif want == "error" and side == "a-only":
                report.fail(rule, site, key, f"blank space ({name}) is tolerated in {state} where the grammar forbids it (outcome: {got})")
            else:
                report.ok(rule, site, key + ":other-direction", nontrivial=False)
    # trailing blank after the last segment is an error; nothing but '$' may start a query
    if side == "a-only":
        try:
            steps = lexer_iteration(model, "lex_segment")
            trailing = [s for s in steps if s.skipped_blank and s.error and "trailing" in str(s.error)]
            eof_after_blank = [s for s in steps if s.skipped_blank and any(t[0] == "EOF" for t in s.tokens)]
            if eof_after_blank or not trailing:
                report.fail(rule, "lex.lex_segment", "trailing-blank", "blank space after the last segment is accepted")
            else:
                report.ok(rule, "lex.lex_segment", "trailing blank space is an error")
            steps = lexer_iteration(model, "lex_root")
            okroot = [s for s in steps if s.tokens and s.prefix != "$"]
            if okroot:
                report.fail(rule, "lex.lex_root", "root", f"a query may start with {okroot[0].prefix!r}")
            else:
                report.ok(rule, "lex.lex_root", "only '$' starts a query")
        except Unsupported as err:
            report.undecided(rule, "lex.lex_segment", str(err))


# --------------------------------------------------------------- transitions
def _first(s: Step) -> Optional[str]:
    return s.prefix[0] if s.prefix else None


def check_transitions(model: Model, report: Any, rule: str) -> None:
    """State transitions and bracket / function-call bookkeeping of the lexer, per generic iteration.

    Expected behaviour is stated in terms of the grammar's structure: which state scans what follows a
    lexeme, when a filter ends, and how parentheses of function calls and groups are matched."""
    F, B, SEG = "lex_inside_filter", "lex_inside_bracketed_segment", "lex_segment"

    def run(state: str, **kw: Any) -> Optional[List[Step]]:
        try:
            return [s for s in lexer_iteration(model, state, **kw) if not s.skipped_blank]
        except Unsupported as err:
            report.undecided(rule, f"lex.{state}", str(err))
            return None

    def expect(state: str, cfg: str, steps: List[Step], what: str, pred: Any, check: Any) -> None:
        site = f"lex.{state}"
        key = f"transition:{state}:{cfg}:{what}"
        cands = [s for s in steps if pred(s)]
        if not cands:
            report.fail(rule, site, key, f"{what}: no path of {state} handles this input ({cfg})")
            return
        for s in cands:
            p = check(s)
            if p:
                report.fail(rule, site, key, f"{what} ({cfg}): {p}; step = {s.show()}")
                return
        report.ok(rule, site, key)

    # ---- inside a filter
    for cfg, kw in (
        ("in-brackets", dict(filter_depth=1, bracket_top="[")),
        ("in-group", dict(filter_depth=1, bracket_top="(")),
        ("in-call", dict(filter_depth=1, bracket_top="(", in_function=1)),
        ("in-call-nested-paren", dict(filter_depth=1, bracket_top="(", in_function=2)),
        # a filter of a bracketed selection that is itself (part of) an argument of a call: count(@[?@.a, ?@.b])
        ("in-selection-inside-call", dict(filter_depth=1, bracket_top="[", in_function=1)),
    ):
        steps = run(F, **kw)
        if steps is None:
            continue
        func0 = [] if not kw.get("in_function") else [int(kw["in_function"])]
        top = kw["bracket_top"]
        # ']' ends the filter and is left for the bracketed-segment state
        expect(F, cfg, steps, "']'", lambda s: _first(s) == "]", lambda s: None if (s.next_state == B and s.filter_depth_delta == -1 and s.consumed == 0 and not s.tokens and not s.error) else "']' must end the filter (depth-1), stay unconsumed and return to the bracketed segment")
        # ','
        # a comma belongs to the innermost open bracket: directly inside a call's parentheses it separates arguments;
        # inside a bracketed selection it separates selectors, also when that selection is nested in an argument
        if func0 and top == "(":
            expect(F, cfg, steps, "',' inside a call", lambda s: _first(s) == ",", lambda s: None if ([t[0] for t in s.tokens] == ["COMMA"] and s.next_state == F and s.filter_depth_delta == 0 and s.func_after == func0) else "a comma between function arguments must emit COMMA and stay in the filter")
        elif func0:
            expect(F, cfg, steps, "',' in a selection nested in a call", lambda s: _first(s) == ",", lambda s: None if ([t[0] for t in s.tokens] == ["COMMA"] and s.next_state == B and s.filter_depth_delta == -1 and s.func_after == func0) else "a comma inside a bracketed selection ends the filter selector (COMMA, depth-1, back to the bracketed segment) even when the selection is an argument of a function call: count(@[?@.a, ?@.b]) is a valid query")
        else:
            expect(F, cfg, steps, "',' outside a call", lambda s: _first(s) == ",", lambda s: None if ([t[0] for t in s.tokens] == ["COMMA"] and s.next_state == B and s.filter_depth_delta == -1) else "a comma outside a function call ends the filter selector (COMMA, depth-1, back to the bracketed segment)")
        # '('
        want_f = [func0[0] + 1] if func0 else []
        expect(F, cfg, steps, "'('", lambda s: _first(s) == "(", lambda s, want_f=want_f: None if ([t[0] for t in s.tokens] == ["LPAREN"] and s.next_state == F and s.brackets_after is not None and s.brackets_after[-2:] == [top, "("] and s.func_after == want_f) else f"'(' must emit LPAREN, be recorded as open, and count towards the enclosing call (expected call counters {want_f})")
        # ')'
        if top == "(":
            want_f2 = [] if func0 == [1] else ([func0[0] - 1] if func0 else [])
            expect(F, cfg, steps, "')'", lambda s: _first(s) == ")" and not s.error, lambda s, want_f2=want_f2: None if ([t[0] for t in s.tokens] == ["RPAREN"] and s.next_state == F and s.brackets_after == [] and s.func_after == want_f2) else f"')' must emit RPAREN, close the open parenthesis and update the call counters to {want_f2}")
        else:
            expect(F, cfg, steps, "unbalanced ')'", lambda s: _first(s) == ")", lambda s: None if (s.error and not s.tokens) else "')' without an open '(' must be an error")
        for ch, tok in (("$", "ROOT"), ("@", "CURRENT")):
            expect(F, cfg, steps, f"'{ch}'", lambda s, ch=ch: _first(s) == ch, lambda s, tok=tok: None if ([t[0] for t in s.tokens] == [tok] and s.next_state == SEG) else f"must emit {tok} and continue with the segments of the embedded query")
        expect(F, cfg, steps, "'.'", lambda s: _first(s) == ".", lambda s: None if (s.next_state == SEG and s.consumed == 0 and not s.tokens) else "'.' must be left for the segment state")
        for q, alias in (("'", "lex_single_quoted_string_inside_filter_expression"), ('"', "lex_double_quoted_string_inside_filter_expression")):
            expect(F, cfg, steps, f"quote {q}", lambda s, q=q: _first(s) == q, lambda s, alias=alias: None if (s.next_state == alias and not s.tokens) else f"must continue in {alias}")
        # function call: name immediately followed by '('
        fsteps = [s for s in steps if any(t[0] == "FUNCTION" for t in s.tokens)]
        if not fsteps:
            report.fail(rule, f"lex.{F}", f"transition:{F}:{cfg}:function", "no path emits a FUNCTION token")
        else:
            bad = None
            for s in fsteps:
                if s.next_state != F or s.func_after != func0 + [1] or not s.brackets_after or s.brackets_after[-1] != "(":
                    bad = f"a function name followed by '(' must emit FUNCTION, open a call (counter 1) and record the '(' as open; step = {s.show()}"
            if bad:
                report.fail(rule, f"lex.{F}", f"transition:{F}:{cfg}:function", bad)
            else:
                report.ok(rule, f"lex.{F}", f"transition:{F}:{cfg}:function")
        expect(F, cfg, steps, "end of input", lambda s: s.at_end, lambda s: None if s.error else "end of input inside a filter must be an error")
    # ---- inside a bracketed segment
    for cfg, kw in (("top-[", dict(filter_depth=0, bracket_top="[")), ("top-(", dict(filter_depth=0, bracket_top="("))):
        steps = run(B, **kw)
        if steps is None:
            continue
        if kw["bracket_top"] == "[":
            expect(B, cfg, steps, "']'", lambda s: _first(s) == "]" and not s.error, lambda s: None if ([t[0] for t in s.tokens] == ["RBRACKET"] and s.next_state == SEG and s.brackets_after == []) else "']' must emit RBRACKET, close the bracket and continue with the next segment")
            expect(B, cfg, steps, "'?'", lambda s: _first(s) == "?", lambda s: None if ([t[0] for t in s.tokens] == ["FILTER"] and s.next_state == F and s.filter_depth_delta == 1) else "'?' must emit FILTER and enter the filter state (depth+1)")
            for q, alias in (("'", "lex_single_quoted_string_inside_bracket_segment"), ('"', "lex_double_quoted_string_inside_bracket_segment")):
                expect(B, cfg, steps, f"quote {q}", lambda s, q=q: _first(s) == q, lambda s, alias=alias: None if (s.next_state == alias and not s.tokens) else f"must continue in {alias}")
            expect(B, cfg, steps, "end of input", lambda s: s.at_end, lambda s: None if s.error else "end of input inside brackets must be an error")
        else:
            expect(B, cfg, steps, "mismatched ']'", lambda s: _first(s) == "]", lambda s: None if (s.error and not s.tokens) else "']' while a '(' is open must be an error")
    # ---- between segments
    for cfg, kw in (("top-level", dict(filter_depth=0)), ("in-filter", dict(filter_depth=1, bracket_top="["))):
        steps = run(SEG, **kw)
        if steps is None:
            continue
        expect(SEG, cfg, steps, "'..'", lambda s: s.prefix.startswith(".."), lambda s: None if ([t[0] for t in s.tokens] == ["DOUBLE_DOT"] and s.next_state == "lex_descendant_segment") else "'..' must emit DOUBLE_DOT and scan a descendant selector")
        expect(SEG, cfg, steps, "'.'", lambda s: s.prefix == "." and s.consumed == 1, lambda s: None if (s.next_state == "lex_shorthand_selector" and not s.tokens) else "'.' must be followed by the shorthand selector state")
        expect(SEG, cfg, steps, "'['", lambda s: _first(s) == "[", lambda s: None if ([t[0] for t in s.tokens] == ["LBRACKET"] and s.next_state == B and s.brackets_after and s.brackets_after[-1] == "[") else "'[' must emit LBRACKET, be recorded as open and enter the bracketed segment")
        others = [s for s in steps if not s.prefix and not s.at_end]
        if kw["filter_depth"]:
            ok = others and all(s.next_state == F and s.consumed in (0, None) and not s.tokens for s in others)
            (report.ok if ok else report.fail)(*((rule, f"lex.{SEG}", f"transition:{SEG}:{cfg}:other") if ok else (rule, f"lex.{SEG}", f"transition:{SEG}:{cfg}:other", "inside a filter any other character must be left for the filter state")))
        else:
            ok = others and all(s.error for s in others)
            (report.ok if ok else report.fail)(*((rule, f"lex.{SEG}", f"transition:{SEG}:{cfg}:other") if ok else (rule, f"lex.{SEG}", f"transition:{SEG}:{cfg}:other", "at top level any other character after a segment must be an error")))
        expect(SEG, cfg, steps, "end of input", lambda s: s.at_end, lambda s: None if ([t[0] for t in s.tokens] == ["EOF"] and s.next_state is None and not s.error) else "end of input after a segment must emit EOF and stop")
    for st in ("lex_descendant_segment", "lex_shorthand_selector"):
        steps = run(st)
        if steps is None:
            continue
        expect(st, "-", steps, "'*'", lambda s: _first(s) == "*", lambda s: None if ([t[0] for t in s.tokens] == ["WILD"] and s.next_state == SEG) else "'*' must emit WILD and continue with the next segment")
        expect(st, "-", steps, "name", lambda s: any(t[0] == "PROPERTY" for t in s.tokens), lambda s: None if s.next_state == SEG else "a shorthand name must be followed by the segment state")
        if st == "lex_descendant_segment":
            expect(st, "-", steps, "'['", lambda s: _first(s) == "[", lambda s: None if ([t[0] for t in s.tokens] == ["LBRACKET"] and s.next_state == B and s.brackets_after == ["["]) else "'..[' must emit LBRACKET, record it and enter the bracketed segment")
            expect(st, "-", steps, "end of input", lambda s: s.at_end, lambda s: None if s.error or s.raised else "a bald '..' must be an error")


def check_function_dispatch(model: Model, report: Any, rule: str) -> None:
    """Every RFC function name followed by '(' reaches the branch that emits FUNCTION.

    The name regex alone (rule L5) does not decide this: the branch is one arm of a ladder, and every test the ladder
    makes before it (a keyword accepted by prefix, a number pattern) takes texts away from it.  The language reaching
    the FUNCTION arm is computed from the path facts of the interpreted state function:
        L(name regex) . "(" . any*   minus   c . any*  for each constant c tested and refused at the pointer
                                     minus   L(p) . any*  for each pattern p tried and refused at the pointer
                                     minus   x . any*  for each character x excluded at the pointer
    and compared with  function-name "(" any*  (RFC 9535 2.4).  Only the refuses-too-much direction is decided here."""
    from ..automata import Alt
    from ..automata import CharSet
    from ..automata import Chars
    from ..automata import Lang
    from ..automata import Seq
    from ..automata import common_partition
    from ..automata import from_sre
    from ..automata import lit
    from ..automata import star
    from ..automata import trailing_lookahead
    from ..oracle import rfc9535 as R

    F = "lex_inside_filter"
    site = f"lex.{F}"
    cell = "function-name-dispatch"
    try:
        steps = [s for s in lexer_iteration(model, F, filter_depth=1, bracket_top="[") if not s.skipped_blank]
    except Unsupported as err:
        report.undecided(rule, site, f"{cell}: {err}")
        return
    fsteps = [s for s in steps if any(t[0] == "FUNCTION" for t in s.tokens) and not s.error]
    if not fsteps:
        report.fail(rule, site, cell, "no path emits a FUNCTION token")
        return
    anything = star(Chars(CharSet.any()))
    rfc = Seq(R.function_name, lit("("), anything)
    parts: List[Tuple[Any, List[Any]]] = []
    rxs: List[Any] = [rfc]
    for s in fsteps:
        pos_rx = [p for p, ok, off in s.regex if ok and off == 0]
        if len(pos_rx) != 1 or any(off != 0 for _p, _ok, off in s.regex) or s.prefix:
            report.undecided(rule, site, f"{cell}: the FUNCTION arm is not one name pattern matched at the pointer; step = {s.show()}")
            return
        la = trailing_lookahead(pos_rx[0])
        follow = lit("(") if la is None else Chars(la[1] if la[0] else la[1].negate())
        if la is not None and not (la[0] and la[1] == CharSet.of("(")):
            report.fail(rule, site, f"{cell}:follow", f"the FUNCTION arm requires {la[1].show()} after the name, not '('")
            return
        accepted = Seq(from_sre(pos_rx[0]), follow, anything)
        removed: List[Any] = [Seq(lit(c), anything) for c, truth in s.startswith if not truth and c]
        removed += [Seq(from_sre(p), anything) for p, ok, off in s.regex if not ok]
        if s.excluded.get(0):
            removed.append(Seq(Chars(CharSet.of("".join(sorted(s.excluded[0])))), anything))
        for c, truth in s.startswith:
            if truth:
                accepted = None  # a constant is required at the pointer as well: not the plain name arm
        if accepted is None:
            continue
        parts.append((accepted, removed))
        rxs += [accepted] + removed
    if not parts:
        report.undecided(rule, site, f"{cell}: no FUNCTION arm of a recognised shape")
        return
    classes = common_partition(rxs)
    total = None
    for accepted, removed in parts:
        lang = Lang.from_rx(accepted, classes)
        for r in removed:
            lang = lang.product(Lang.from_rx(r, classes), "minus")
        total = lang if total is None else total.product(lang, "or")
    missing = Lang.from_rx(rfc, classes).product(total, "minus").minimize()
    w = missing.shortest()
    if w is None:
        report.ok(rule, site, cell, detail={"function_arms": len(parts), "alphabet_classes": len(classes)})
        return
    # name the tests that take the witness away
    s0 = fsteps[0]
    culprits = [c for c, truth in s0.startswith if not truth and c and w.startswith(c)]
    why = f" (the earlier test for {culprits[0]!r} takes the text first)" if culprits else ""
    name = w.split("(")[0]
    report.fail(rule, site, f"{cell}:refused:{'keyword-prefix' if culprits else 'other'}", f"function name '{name}' followed by '(' does not reach the arm that emits FUNCTION{why}: a call of a registered function with such a name is refused although RFC 9535 allows the name", what=cell)


# ------------------------------------------------------------------ progress (termination of the scan)
PROGRESS_CONFIGS = (
    ("top-level", dict()),
    ("in-filter", dict(filter_depth=1, bracket_top="[")),
    ("in-call", dict(filter_depth=1, bracket_top="(", in_function=1)),
)


def lexer_state_names(model: Model) -> List[str]:
    """Every state function of the lexer: module-level functions taking the lexer and returning a state, and the
    module-level names bound to closures of a state factory; found from the return annotations / call shapes,
    closed under 'is returned by a state' while the steps are computed."""
    lexmod = model.module("lex")
    names = []
    for n, fi in lexmod.functions.items():
        a = fi.node.args.args
        if len(a) == 1 and fi.node.returns is not None and "StateFn" in ast.unparse(fi.node.returns) and not any(isinstance(x, ast.FunctionDef) for x in ast.walk(fi.node) if x is not fi.node):
            names.append(n)
    for alias, expr in lexmod.assigns.items():
        if isinstance(expr, ast.Call) and isinstance(expr.func, ast.Name) and expr.func.id in lexmod.functions:
            f = lexmod.functions[expr.func.id]
            if f.node.returns is not None and "StateFn" in ast.unparse(f.node.returns):
                names.append(alias)
    return names


def check_progress(model: Model, report: Any, rule: str) -> None:
    """Termination of `Lexer.run`: the scan is a loop `state = state(lexer)`; it ends when a state returns None.

    Every step (one path through one generic iteration of a state, from an arbitrary position `pos <= len(query)`)
    either stops the scan (returns None / raises), or provably moves `pos` forward by at least one character
    (octagon entailment; the length of a match of a pattern that cannot match the empty string is >= 1), or is a
    *zero-progress* step.  Zero-progress steps leave the text at the pointer unchanged, so the next state sees the
    same character: a chain of zero-progress steps is followed while the facts each step establishes about that
    character (fixed character, excluded characters, end of input) stay consistent.  The scan terminates if no
    such chain returns to a state it has already been in with the bookkeeping unchanged: the measure is
    len(query) - pos (A1: a regex match and `query[pos]` lie within the query, so pos never passes the end)."""
    lexmod = model.module("lex")
    lci = model.cls("lex.Lexer")
    run = lci.find_method("run")
    if run is None:
        raise AnalysisError("anchor vanished: lex.Lexer.run")
    loops = [n for n in ast.walk(run.node) if isinstance(n, (ast.While, ast.For))]
    shape_ok = False
    if len(loops) == 1 and isinstance(loops[0], ast.While):
        w = loops[0]
        names = {n.id for n in ast.walk(w.test) if isinstance(n, ast.Name)}
        for st in w.body:
            if isinstance(st, ast.Assign) and len(st.targets) == 1 and isinstance(st.targets[0], ast.Name) and st.targets[0].id in names:
                v = st.value
                if isinstance(v, ast.Call) and isinstance(v.func, ast.Name) and v.func.id == st.targets[0].id and len(v.args) == 1 and isinstance(v.args[0], ast.Name) and v.args[0].id == "self":
                    shape_ok = len(w.body) == 1
    if not shape_ok:
        report.undecided(rule, run.qualname, "progress: Lexer.run is not the loop `while state is not None: state = state(self)`")
        return
    report.ok(rule, run.qualname, "progress:run-loop-shape")
    states = lexer_state_names(model)
    if len(states) < 6:
        raise AnalysisError(f"progress: only {len(states)} lexer states found ({states}); the inventory is broken")
    table: Dict[Tuple[str, str], List[Step]] = {}
    for st in states:
        for cfg, kw in PROGRESS_CONFIGS:
            try:
                table[(st, cfg)] = lexer_iteration(model, st, **kw)
            except Unsupported as err:
                report.undecided(rule, f"lex.{st}", f"progress:{cfg}: {err}")
                return

    def stops(s: Step) -> bool:
        return bool(s.raised or s.error or s.next_state is None)

    # invariant pos <= len(query): a step must not move the pointer beyond the end (checked where it is linear)
    n_steps = 0
    zero: Dict[Tuple[str, str], List[Step]] = {}
    for (st, cfg), steps in table.items():
        for s in steps:
            n_steps += 1
            if stops(s) or s.progress:
                continue
            if s.next_state not in states:
                report.undecided(rule, f"lex.{st}", f"progress:{cfg}: a step hands over to {s.next_state!r}, which is not a known state function")
                return
            if s.consumed not in (0, None):
                # pos changed by an amount that is not provably >= 1 (possibly backwards)
                report.fail(rule, f"lex.{st}", f"progress:{st}:moves-by:{s.consumed}", f"a path through {st} ({cfg}) continues with {s.next_state} after moving the pointer by {s.consumed}, which is not provably forward: the scan need not terminate; step = {s.show()}")
                continue
            zero.setdefault((st, cfg), []).append(s)

    def facts(s: Step) -> Tuple[Optional[str], frozenset, Optional[bool]]:
        return (s.prefix[0] if s.prefix else None, frozenset(s.excluded.get(0, ())), s.at_end)

    def merge(a: Any, b: Any) -> Any:
        """Conjunction of two fact sets about the character at the pointer; None if contradictory."""
        ch = a[0] or b[0]
        if a[0] and b[0] and a[0] != b[0]:
            return None
        ex = a[1] | b[1]
        if ch and ch in ex:
            return None
        end = a[2] if a[2] is not None else b[2]
        if a[2] is not None and b[2] is not None and a[2] != b[2]:
            return None
        if end and ch:
            return None
        return (ch, ex, end)

    cycles: List[str] = []
    chains = 0
    longest = 0

    def follow(st: str, cfg: str, known: Any, seen: Tuple[str, ...], depth_delta: int) -> None:
        nonlocal chains, longest
        longest = max(longest, len(seen))
        for s in zero.get((st, cfg), []):
            f = merge(known, facts(s))
            if f is None:
                continue
            chains += 1
            nxt = s.next_state
            dd = depth_delta + (s.filter_depth_delta or 0)
            if nxt in seen or nxt == st:
                if dd == 0:
                    cycles.append(" -> ".join(seen + (st, nxt)) + f" at a character with {('fixed ' + repr(f[0])) if f[0] else ('end of input' if f[2] else 'excluded ' + repr(sorted(f[1])))}")
                continue
            # the configuration of the next state: keep the caller's (bookkeeping changes only shrink the filter depth)
            follow(nxt, cfg, f, seen + (st,), dd)

    for (st, cfg) in list(zero):
        follow(st, cfg, (None, frozenset(), None), (), 0)
    for c in sorted(set(cycles)):
        report.fail(rule, "lex.Lexer.run", f"progress:zero-progress-cycle:{c.split(' at ')[0]}", f"the lexer can move through the states {c} without consuming a character and without changing its bookkeeping: the scan does not terminate on such input")
    if not cycles:
        report.ok(rule, "lex.Lexer.run", "progress:no-zero-progress-cycle", detail={"states": len(states), "steps": n_steps, "zero_progress_steps": sum(len(v) for v in zero.values()), "chains_followed": chains, "longest_chain": longest})
    for st in states:
        report.touched(f"lex.{st}")


def check_pointer_in_range(model: Model, report: Any, rule: str) -> None:
    """Offsets carried by tokens lie inside the query because the lexer's pointer never passes its end: every step
    that hands over to another state leaves `pos <= len(query)` (the precondition under which every state is
    analysed).  A step that can leave the pointer beyond the end is followed into the next state *from there*; if
    that state can then emit an error token or raise (both carry `start` / `pos`), the offset reported lies
    outside the query text."""
    states = lexer_state_names(model)
    n = 0
    bad = 0
    for st in states:
        for cfg, kw in PROGRESS_CONFIGS:
            try:
                steps = lexer_iteration(model, st, **kw)
            except Unsupported as err:
                report.undecided(rule, f"lex.{st}", f"pointer-in-range:{cfg}: {err}")
                return
            for s in steps:
                if s.skipped_blank:
                    continue  # the same code runs from the position after the blanks (covered by the generic position)
                if s.raised or s.error or s.next_state is None or not s.beyond_end:
                    # (pos <= len(query) itself is a three-variable fact, pos + matched length <= len, which the
                    # octagon cannot hold; only steps that provably end beyond the text are followed)
                    n += 1
                    continue
                if s.next_state not in states:
                    continue
                try:
                    nxt = lexer_iteration(model, s.next_state, beyond_end=True, **kw)
                except Unsupported as err:
                    report.undecided(rule, f"lex.{st}", f"pointer-in-range:{cfg}: next state from beyond the end: {err}")
                    return
                errs = [t for t in nxt if t.error or t.raised]
                if errs:
                    bad += 1
                    what = errs[0].error or errs[0].raised
                    report.fail(rule, f"lex.{st}", f"pointer-beyond-end:{st}->{s.next_state}", f"a path through {st} ({cfg}) leaves the pointer beyond the end of the query (moved by {s.consumed} at the end of input) and hands over to {s.next_state}, which then reports {what!r} at that pointer: the offset of the error lies outside the query text (e.g. a query ending right after an opening quote)")
                else:
                    n += 1
    if not bad:
        report.ok(rule, "lex.Lexer", "pointer-in-range: no step hands over with the pointer beyond the end of the query to a state that reports an error there", detail={"steps": n})
