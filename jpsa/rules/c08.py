"""C08 — node locations and normalized paths."""

from __future__ import annotations

from typing import Any
from typing import Dict
from typing import List
from typing import Optional

from ..absctx import Unsupported
from ..absint import Interp
from ..absval import *  # noqa: F403
from ..automata import CharSet
from ..harness import describe
from ..harness import make_node
from ..harness import paths
from ..model import AnalysisError
from ..model import Model
from ..numeric import Lin
from ..protocol import Report
from . import _filtersel
from . import _selrules
from . import _strings
from . import _strmodel
from . import c01
from . import c02
from . import c09


def flatten(t: Any) -> List[Any]:
    """Flatten a string-building term into a list of constants and atoms."""
    if isinstance(t, Const):
        return [t.value] if t.value != "" else []
    if isinstance(t, Term):
        if t.op == "concat":
            return flatten(t.args[0]) + flatten(t.args[1])
        if t.op == "fstr":
            out: List[Any] = []
            for p in t.args:
                out += flatten(p)
            return out
        if t.op == "join":
            sep, items = t.args
            out = []
            if isinstance(items, tuple):
                for k, it_ in enumerate(items):
                    if k and isinstance(sep, Const) and sep.value:
                        out.append(sep.value)
                    out += flatten(it_)
                return out
        if t.op == "canonical":
            return [("canonical", t.args[0])]
        if t.op == "str":
            return [("str", t.args[0])]
    return [("?", t)]


def merge_consts(parts: List[Any]) -> List[Any]:
    out: List[Any] = []
    for p in parts:
        if isinstance(p, str) and out and isinstance(out[-1], str):
            out[-1] += p
        else:
            out.append(p)
    return out


def check_path_template(model: Model, report: Report, rule: str) -> None:
    nci = model.cls("node.JSONPathNode")
    fn = nci.find_method("path")
    if fn is None:
        raise AnalysisError("anchor vanished: JSONPathNode.path")
    canon = None
    r = model.resolve_global(model.module("node"), "canonical_string")
    if r and r[0] == "func":
        canon = r[1]
    for shape in (["name", "index"], ["index", "name", "name"], []):

        def body(it: Interp, shape=shape) -> Any:
            keys = []
            for k, s in enumerate(shape):
                keys.append(it.new_str(f"name{k}") if s == "name" else it.new_int(f"index{k}", 0))
            node = make_node(it, model, it.new_sym("v"), "node", location=PyTuple(keys))
            if canon is not None:
                it.hooks[canon.qualname] = lambda interp, fi, args, kw, n: Term("canonical", (args[0],), interp.ctx.new_id())
            return it.call_function(fn, [node], {}, None, self_av=node), keys

        key = f"path-template:{'/'.join(shape) or 'root'}"
        try:
            runs = paths(model, body)
        except Unsupported as err:
            report.undecided(rule, fn.qualname, f"{key}: {err}")
            continue
        good = True
        for run in runs:
            if run.kind == "raise":
                report.fail(rule, fn.qualname, key, f"path() raises {run.exc_name()}", file=fn.file, line=fn.line)
                good = False
                continue
            r_, keys = run.value
            got = merge_consts(flatten(r_))
            want: List[Any] = ["$"]
            for k in keys:
                want.append("[")
                want.append(("canonical", k) if isinstance(k, SymStr) else ("str", k))
                want.append("]")
            want = merge_consts(want)
            same = len(got) == len(want)
            if same:
                for g, w in zip(got, want):
                    if isinstance(w, str):
                        same &= g == w
                    else:
                        same &= isinstance(g, tuple) and g[0] == w[0] and (g[1] is w[1] or (isinstance(g[1], IntV) and isinstance(w[1], IntV) and g[1].lin == w[1].lin))
            if not same:
                show = [x if isinstance(x, str) else f"<{x[0]} {describe(x[1])}>" for x in got]
                report.fail(rule, fn.qualname, key, f"path() renders {show}, expected '$' followed by [canonical(name)] / [decimal index] per location key in order", file=fn.file, line=fn.line)
                good = False
        if good:
            report.ok(rule, fn.qualname, key)
    report.touched(fn.qualname)


def check_writer(model: Model, report: Report, rule_w: str, rule_rt: str) -> None:
    chain, why, fn = _strmodel.extract_chain(model)
    if chain is None:
        report.undecided(rule_w, fn.qualname, f"canonical_string is not an op chain: {why}")
        return
    tests = _strmodel.test_strings()
    if report.tier == "thorough":
        # one representative is enough per class for local ops; the thorough tier walks a stride of the
        # whole code space as a cross-check of the class partition
        tests = tests + [chr(cp) for cp in range(0, 0x110000, 97) if not 0xD800 <= cp <= 0xDFFF]
    bad: Dict[str, Any] = {}
    for s in tests:
        got = chain.apply(s)
        want = _strmodel.rfc_normalized_name(s)
        if got != want:
            cls = _class_of(s)
            bad.setdefault(cls, (s, got, want))
    if bad:
        for cls, (s, got, want) in sorted(bad.items()):
            report.fail(rule_w, fn.qualname, f"writer:{cls}", f"canonical_string({s!r}) gives {got!r}, RFC 9535 normalized form is {want!r} (op chain {chain.show()})", file=fn.file, line=fn.line)
    else:
        report.ok(rule_w, fn.qualname, "writer table = RFC normalized-path name for every class and special pair", detail={"chain": chain.show(), "strings": len(tests)})
    # reader o writer
    dm = _strings.extract_decoder(model)
    for part, k, msg, dfn in dm.problems:
        if k.endswith(":rejected") or k.endswith("pair-rejected") or k.endswith(":raises"):
            report.fail(rule_rt, dfn.qualname, f"reader:{k}", f"the reader refuses text the writer can produce: {msg}", file=dfn.file, line=dfn.line)
    nchain, why2 = c09.normalisation_chain(model, "SINGLE_QUOTE_STRING")
    if nchain is None:
        report.undecided(rule_rt, "parse.Parser._decode_string_literal", f"{why2}")
        return
    try:
        lx = _strings.analyse_lex_string(model, "'", "bracket")
    except Unsupported as err:
        report.undecided(rule_rt, "lex.lex_string_factory", str(err))
        return
    for k_, msg_ in lx["problems"]:
        if k_ == "lex:close-text":
            report.fail(rule_rt, "lex.lex_string_factory", "reader:token-text", f"the reader does not recover the name the writer wrote: {msg_}")
    bad2: Dict[str, Any] = {}
    for s in tests:
        text = chain.apply(s)
        if not (len(text) >= 2 and text[0] == "'" and text[-1] == "'"):
            bad2.setdefault("not-single-quoted", (s, text, None, "writer output is not a single-quoted literal"))
            continue
        dec, reason = _strmodel.decode_with_model(dm, nchain, text[1:-1], lx["escapes"], lx["raw"], "'")
        if dec != s:
            bad2.setdefault(_class_of(s), (s, text, dec, reason))
    rsite = "parse.Parser._decode_escape_sequence"
    if bad2:
        for cls, (s, text, dec, reason) in sorted(bad2.items()):
            report.fail(rule_rt, rsite, f"roundtrip:{cls}", f"member name {s!r} is written as {text} which the library's own reader {'rejects (' + reason + ')' if dec is None else 'decodes to ' + repr(dec)}", file=fn.file, line=fn.line)
    else:
        report.ok(rule_rt, rsite, "reader(writer(name)) == name for every class and special pair", detail={"strings": len(tests)})
    report.touched(fn.qualname)


def _class_of(s: str) -> str:
    def one(c: str) -> str:
        cp = ord(c)
        if c in "\"'\\/":
            return {'"': "dquote", "'": "squote", "\\": "backslash", "/": "slash"}[c]
        if cp in _strmodel.SHORT:
            return f"short-{cp:02x}"
        if cp < 0x20:
            return "C0-other"
        if cp == 0x7F:
            return "DEL"
        if cp < 0x7F:
            return "ascii"
        if cp < 0x10000:
            return "bmp"
        return "astral"

    return "+".join(one(c) for c in s[:2]) or "empty"


def check_projections(model: Model, report: Report, rule: str) -> None:
    nl = model.cls("node.JSONPathNodeList")
    ncls = model.cls("node.JSONPathNode")
    pathfn = ncls.find_method("path")
    for name in ("values", "paths", "items"):
        fn = nl.find_method(name)
        if fn is None:
            report.fail(rule, f"node.JSONPathNodeList.{name}", "missing", f"JSONPathNodeList.{name} is missing")
            continue

        def body(it: Interp, fn=fn) -> Any:
            lst = c02.abstract_nl(it, model, "nodes", 0, None)
            if pathfn is not None:
                it.hooks[pathfn.qualname] = lambda interp, fi, args, kw, n: Term("path-of", (args[0],), interp.ctx.new_id())
            return it.call_function(fn, [lst], {}, None, self_av=lst), lst

        key = f"projection:{name}"
        try:
            runs = paths(model, body)
        except Unsupported as err:
            report.undecided(rule, fn.qualname, f"{key}: {err}")
            continue
        good = True
        for run in runs:
            msg = None
            if run.kind == "raise":
                msg = f"raises {run.exc_name()}"
            else:
                r, lst = run.value
                evs = r.events if isinstance(r, Stream) else None
                if evs is None or len(evs) != 1 or evs[0].kind != "foreach":
                    msg = f"returns {describe(r)!r}, expected one pass over the nodelist"
                else:
                    fe = evs[0]
                    from ._sel import base_of, order_problem

                    if base_of(fe.src) is not lst or order_problem(fe.src):
                        msg = f"iterates {fe.src!r}, expected the nodelist itself in order"
                    else:
                        nd = fe.elem.val
                        body_ = [e for e in fe.body]
                        if len(body_) != 1 or body_[0].kind != "yield":
                            msg = "does not produce exactly one entry per node"
                        else:
                            v = body_[0].value
                            val_ok = lambda x: x is nd.attrs.get("value")  # noqa: E731
                            path_ok = lambda x: isinstance(x, Term) and x.op == "path-of" and x.args[0] is nd  # noqa: E731
                            if name == "values" and not val_ok(v):
                                msg = f"entry is {describe(v)!r}, expected node.value"
                            if name == "paths" and not path_ok(v):
                                msg = f"entry is {describe(v)!r}, expected node.path()"
                            if name == "items" and not (isinstance(v, PyTuple) and len(v.items) == 2 and path_ok(v.items[0]) and val_ok(v.items[1])):
                                msg = f"entry is {describe(v)!r}, expected (node.path(), node.value)"
            if msg:
                report.fail(rule, fn.qualname, key, f"{name}() {msg}", file=fn.file, line=fn.line)
                good = False
        if good:
            report.ok(rule, fn.qualname, key)
        report.touched(fn.qualname)


def check(model: Model, report: Report) -> None:
    report.rule("R08.1", "every child node is new_child(element itself, its own key) at every selector (value identity, key pairing)")
    report.rule("R08.2", "new_child: location = parent.location + (key,), root propagated, value stored as given")
    report.rule("R08.3", "path(): '$' then [canonical(name)] for str keys / [decimal] for int keys, in location order")
    report.rule("R08.4", "writer: canonical_string as an op chain equals the RFC normalized-path name on every character class and every ordered pair of special characters")
    report.rule("R08.5", "reader(writer(name)) == name using the reader tables extracted from lexer and parser")
    report.rule("R08.6", "locations hold non-negative indices (index regions; slice indices from range(*slice.indices))")
    report.rule("R08.7", "values()/paths()/items() project the nodelist in order")
    report.assumptions += ["A2: json.dumps escaping model; str.replace left-to-right non-overlapping", "member names are strings of Unicode scalar values"]
    report.not_decided += ["that re-evaluating the path returns exactly one node follows from C01 (exact key lookup, kind guards) + R08.5; argued, not computed"]
    _selrules.check_name(model, report, "R08.1")
    _selrules.check_wildcard(model, report, "R08.1", nondet=False)
    _selrules.check_slice(model, report, "R08.1")
    # the descendant visitors build child nodes too: new_child(element itself, its own key / index)
    from . import _segrules

    _segrules.check_visit(model, report, "R08.1")
    _segrules.check_nondet_children(model, report, "R08.1")
    _filtersel.check_filter_selector(model, report, "R08.1", nondet=False)
    _selrules.check_index(model, report, "R08.6")
    c01.check_new_child(model, report, "R08.2")
    c01.check_finditer(model, report, "R08.2")
    check_path_template(model, report, "R08.3")
    check_writer(model, report, "R08.4", "R08.5")
    check_projections(model, report, "R08.7")
    report.extra["explanation"] = "C08: pairing/identity from selector traces; path template as a term; canonical_string extracted as an op chain and evaluated (model) on every class and special pair; round trip through the extracted reader tables."
