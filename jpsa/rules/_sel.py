"""Shared trace analyses of selectors, segments and nodes (used by C01, C07, C08, C17, C18)."""

from __future__ import annotations

from typing import Any
from typing import Callable
from typing import Dict
from typing import List
from typing import Optional
from typing import Tuple

from ..absctx import Unsupported
from ..absint import AbsRaise
from ..absint import Interp
from ..absval import *  # noqa: F403
from ..harness import Run
from ..harness import describe
from ..harness import make_node
from ..harness import paths
from ..model import AnalysisError
from ..model import Model
from ..numeric import Lin
from ..protocol import Report

SCALARS = ["null", "bool", "int", "float", "str"]
KINDS = SCALARS + ["list", "dict"]


# --------------------------------------------------------------------- setup
def make_env(it: Interp, model: Model, nondet: Optional[bool] = False) -> Inst:
    env = it.harness_inst(model.cls("environment.JSONPathEnvironment"), "env")
    if nondet is not None:
        env.attrs["nondeterministic"] = Const(nondet)
    lim = it.new_int("max_recursion_depth", 1)
    env.attrs["max_recursion_depth"] = lim
    return env


def compile_time_config(it: Interp, env: Inst) -> Dict[str, Any]:
    return it.compile_time_config(env)


_CTOR_OK: Dict[Tuple[int, str], bool] = {}


def _constructor_is_tractable(model: Model, ci: Any, env: Inst) -> bool:
    """Pre-flight, outside the exploration in progress: interpreting the class's constructor on symbolic arguments
    stays within a small number of paths.  A constructor that analyses the compile-time structure (walks an
    expression tree, asks the query whether it is singular, ...) does not; its results are then treated as unknowns
    (`computed-at-construction`) instead of being computed."""
    from .. import harness as _h
    from ..absctx import PathLimit

    key = (id(model), ci.qualname)
    if key in _CTOR_OK:
        return _CTOR_OK[key]
    _CTOR_OK[key] = False  # re-entrancy: the pre-flight itself builds selectors the simple way

    def body(it2: Interp) -> Any:
        env2 = make_env(it2, model, False)
        return make_selector(it2, model, ci.qualname, env2, _preflight=True)

    saved, _h.MONITOR = _h.MONITOR, None
    try:
        runs = _h.paths(model, body, limit=1024)
        ok = True
    except (PathLimit, Unsupported, AnalysisError):
        ok = False
    finally:
        _h.MONITOR = saved
    _CTOR_OK[key] = ok
    return ok


def make_selector(it: Interp, model: Model, cls_qual: str, env: Inst, _preflight: bool = False, slice_parts: Any = None) -> Inst:
    """A selector as its real constructor builds it from symbolic arguments (so attributes precomputed in
    __init__ exist and are consistent), with the rule-visible attributes being the harness's own objects, and
    with every attribute that a non-constructor method writes replaced by an unknown (state left by earlier
    calls).  Paths on which the constructor refuses the arguments are discarded."""
    from .. import effects
    from .. import harness as _h
    from ..absctx import Infeasible

    ci = model.cls(cls_qual)
    tok = it.new_opaque("selector.token", model.cls("tokens.Token"))
    slots = set()
    for c in ci.mro():
        slots.update(c.slots() or [])
    vals: Dict[str, Any] = {}
    if "name" in slots:
        vals["name"] = it.new_str("name")
    if "index" in slots:
        vals["index"] = it.new_int("index")
    slv = None
    if "slice" in slots:
        if slice_parts is not None:
            slv = SliceV(slice_parts[0], slice_parts[1], slice_parts[2], it.ctx.new_id())
        elif _preflight:
            # representative arguments for the tractability pre-flight: each component absent or an integer
            def opt(label: str) -> Any:
                return Const(None) if it.ctx.choose(("preflight-none", label), [True, False]) else it.new_int(label)

            slv = SliceV(opt("start"), opt("stop"), opt("step"), it.ctx.new_id())
        else:
            slv = SliceV(it.new_opaque("start"), it.new_opaque("stop"), it.new_opaque("step"), it.ctx.new_id())
        vals["slice"] = slv
    s = None
    init = ci.find_method("__init__")
    if init is not None and init.cls is not None and init.cls.name != "JSONPathSelector":
        a = init.node.args
        params = [x.arg for x in a.args[1:] + a.kwonlyargs]
        n_def = len(a.defaults)
        required = [x.arg for x in (a.args[1:][: len(a.args[1:]) - n_def] if n_def else a.args[1:])] + [x.arg for x, d in zip(a.kwonlyargs, a.kw_defaults) if d is None]
        kwargs: Dict[str, Any] = {}
        for p in params:
            if p == "env":
                kwargs[p] = env
            elif p == "token":
                kwargs[p] = tok
            elif p in vals and p != "slice":
                kwargs[p] = vals[p]
            elif slv is not None and p in ("start", "stop", "step"):
                kwargs[p] = getattr(slv, p)
            elif p == "expression":
                kwargs[p] = it.new_opaque("selector.expression", model.cls("filter_expressions.FilterExpression"))
        if all(r in kwargs for r in required) and (_preflight or _constructor_is_tractable(model, ci, env)):
            saved, _h.MONITOR = _h.MONITOR, None
            # the environment's configuration is public and mutable: what it was when the query was compiled says
            # nothing about what it is when the query is applied, so the constructor sees unrelated values
            cfg_saved = compile_time_config(it, env)
            try:
                s = it.instantiate(ci, [], kwargs, None)
            except AbsRaise:
                raise Infeasible() from None  # the constructor refuses these arguments: no such selector exists
            except Unsupported:
                s = None
            finally:
                _h.MONITOR = saved
                env.attrs.clear()
                env.attrs.update(cfg_saved)
    if s is None:
        s = it.harness_inst(ci, "selector")
    s.attrs["env"] = env
    s.attrs["token"] = tok
    keep_expr = s.attrs.get("expression")
    s.attrs.update(vals)
    it.havoc_written(s, "selector")
    return s


def run_trace(it: Interp, fn: Any, args: List[Any], self_av: Any) -> Tuple[List[Ev], Any]:
    g = it.call_function(fn, args, {}, None, self_av=self_av)
    if not isinstance(g, GenV):
        kind, payload = it.host.iterate(g, None)
        if kind == "concrete":
            return [Ev("yield", value=x) for x in payload], None
        if kind == "stream":
            if isinstance(payload, GenV):
                return it.run_gen(payload)
            return payload.events, None
        raise Unsupported(f"{fn.qualname} returned {g!r}, not an iterator")
    return it.run_gen(g)


# ------------------------------------------------------------------ matchers
def same_int(a: Any, b: Any) -> bool:
    la = a.lin if isinstance(a, IntV) else (Lin.k(a.value) if isinstance(a, Const) and isinstance(a.value, int) else None)
    lb = b.lin if isinstance(b, IntV) else (Lin.k(b.value) if isinstance(b, Const) and isinstance(b.value, int) else None)
    return la is not None and lb is not None and la == lb


def same_key(a: Any, b: Any) -> bool:
    if a is b:
        return True
    if isinstance(a, (IntV, Const)) and isinstance(b, (IntV, Const)):
        if same_int(a, b):
            return True
        if isinstance(a, Const) and isinstance(b, Const):
            return a.value == b.value and type(a.value) is type(b.value)
    return False


def child_problem(x: Any, parent: Inst, value: Any, key: Any) -> Optional[str]:
    """None if x is exactly parent.new_child(value, key) as the RFC needs it."""
    if not isinstance(x, Inst) or x.cls.name != "JSONPathNode":
        return f"yields {describe(x)!r}, not a JSONPathNode"
    if x is parent:
        return "yields the parent node itself instead of a child"
    v = x.attrs.get("value")
    if v is not value:
        return f"node.value is {describe(v)!r}, expected the selected element {describe(value)!r} itself (identity)"
    if x.attrs.get("root") is not parent.attrs.get("root"):
        return f"node.root is {describe(x.attrs.get('root'))!r}, expected the parent's root"
    loc = x.attrs.get("location")
    if not (isinstance(loc, Term) and loc.op == "add" and loc.args[0] is parent.attrs.get("location")):
        return f"node.location is {describe(loc)!r}, expected parent.location + (key,)"
    tail = loc.args[1]
    if not (isinstance(tail, PyTuple) and len(tail.items) == 1):
        return f"node.location appends {describe(tail)!r}, expected exactly one key"
    if not same_key(tail.items[0], key):
        return f"node.location key is {describe(tail.items[0])!r}, expected {describe(key)!r}"
    return None


def effects_problem(events: List[Ev]) -> Optional[Tuple[str, Ev]]:
    """State carried between iterations or mutation of outer/document objects."""
    for e in events:
        if e.kind in ("mutate", "carried", "break", "return"):
            what = {
                "mutate": f"mutates {describe(e.value)!r} via {e.info!r}",
                "carried": f"carries variable {e.value!r} between iterations",
                "break": "stops the iteration early (break)",
                "return": "returns from inside the iteration",
            }[e.kind]
            return what, e
        if e.kind == "foreach":
            r = effects_problem(e.body)
            if r:
                return r
    return None


def order_problem(src: Source, allow_shuffle: bool = False) -> Optional[str]:
    for o in src.order:
        if o == "shuffled" and allow_shuffle:
            continue
        return f"iteration order is changed by {o!r}"
    if isinstance(src.base, Source):
        return order_problem(src.base, allow_shuffle)
    if isinstance(src.base, tuple):
        for b in src.base:
            if isinstance(b, Source):
                r = order_problem(b, allow_shuffle)
                if r:
                    return r
    return None


def base_of(src: Source) -> Any:
    b = src.base
    while isinstance(b, Source):
        b = b.base
    return b


def ev_site(e: Optional[Ev], default: Tuple[str, int]) -> Tuple[str, int]:
    if e is not None and e.site:
        return e.site[0], e.site[1]
    return default


def show_trace(events: List[Ev], depth: int = 0) -> List[Any]:
    out: List[Any] = []
    for e in events:
        if e.kind == "foreach":
            out.append({"foreach": repr(e.src), "body": show_trace(e.body, depth + 1)})
        elif e.kind == "yield":
            out.append({"yield": describe(e.value)})
        elif e.kind == "raise":
            out.append({"raise": describe(e.value)})
        else:
            out.append({e.kind: describe(e.value), "info": repr(e.info)})
    return out


# ------------------------------------------------------------- expectations
class Expect:
    """Result of comparing a trace with the expectation for one cell."""

    def __init__(self) -> None:
        self.problem: Optional[str] = None
        self.ev: Optional[Ev] = None
        self.undecided: Optional[str] = None

    def bad(self, msg: str, ev: Optional[Ev] = None) -> "Expect":
        if self.problem is None:
            self.problem = msg
            self.ev = ev
        return self


def expect_empty(events: List[Ev], terminal: Any, why: str) -> Expect:
    x = Expect()
    if terminal is not None:
        return x.bad(f"raises {describe(terminal.exc)} ({why})")
    for e in events:
        if e.kind == "foreach" and not _has_yield(e.body):
            eff = effects_problem([e])
            if eff:
                return x.bad(eff[0], eff[1])
            continue
        return x.bad(f"produces {show_trace([e])} but must select nothing ({why})", e)
    return x


def _has_yield(events: List[Ev]) -> bool:
    for e in events:
        if e.kind in ("yield", "yield_from", "raise"):
            return True
        if e.kind == "foreach" and _has_yield(e.body):
            return True
    return False


def strip_empty_loops(events: List[Ev]) -> List[Ev]:
    return [e for e in events if not (e.kind == "foreach" and not _has_yield(e.body) and not effects_problem([e]))]


def expect_single_child(events: List[Ev], terminal: Any, parent: Inst, value: Any, key: Any) -> Expect:
    x = Expect()
    if terminal is not None:
        return x.bad(f"raises {describe(terminal.exc)}")
    eff = effects_problem(events)
    if eff:
        return x.bad(eff[0], eff[1])
    evs = strip_empty_loops(events)
    if len(evs) != 1 or evs[0].kind != "yield":
        return x.bad(f"trace is {show_trace(evs)}, expected exactly one child node", evs[0] if evs else None)
    p = child_problem(evs[0].value, parent, value, key)
    if p:
        return x.bad(p, evs[0])
    return x


def expect_foreach_children(
    events: List[Ev],
    terminal: Any,
    parent: Inst,
    container: Any,
    views: Tuple[str, ...],
    allow_shuffle: bool = False,
    require_shuffle: bool = False,
) -> Expect:
    """Exactly one loop over *container* in its own order yielding child(elem.val, elem.key) each."""
    x = Expect()
    if terminal is not None:
        return x.bad(f"raises {describe(terminal.exc)}")
    eff = effects_problem(events)
    if eff:
        return x.bad(eff[0], eff[1])
    evs = strip_empty_loops(events)
    if len(evs) != 1 or evs[0].kind != "foreach":
        return x.bad(f"trace is {show_trace(evs)}, expected one loop over the container's children", evs[0] if evs else None)
    fe = evs[0]
    src: Source = fe.src
    if base_of(src) is not container:
        return x.bad(f"iterates {src!r}, expected the node's own value", fe)
    op = order_problem(src, allow_shuffle)
    if op:
        return x.bad(op, fe)
    if require_shuffle and "shuffled" not in _all_orders(src):
        return x.bad("object members are not shuffled in nondeterministic mode", fe)
    if "shuffled" in _all_orders(src) and not _fresh_chain(src):
        return x.bad("shuffles a list that is not a fresh copy", fe)
    el: Elem = fe.elem
    key, val, pp = elem_pairing(el)
    if pp:
        return x.bad(pp, fe)
    if key is None or val is None:
        x.undecided = f"iteration view {src.view} gives no (key, value) pairing"
        return x
    body = strip_empty_loops(fe.body)
    if len(body) != 1 or body[0].kind != "yield":
        return x.bad(f"loop body trace is {show_trace(body)}, expected exactly one child per element", body[0] if body else fe)
    p = child_problem(body[0].value, parent, val, key)
    if p:
        return x.bad(p, body[0])
    return x


def _all_orders(src: Source) -> List[Any]:
    out = list(src.order)
    if isinstance(src.base, Source):
        out += _all_orders(src.base)
    return out


def _fresh_chain(src: Source) -> bool:
    return src.fresh


def elem_key_val(el: Elem) -> Tuple[Any, Any]:
    """(key, value) of the container element a loop variable stands for."""
    k, v, _p = elem_pairing(el)
    return k, v


def elem_pairing(el: Elem) -> Tuple[Any, Any, Optional[str]]:
    """(key, value, problem): problem says why the loop does not enumerate the container's own children."""
    for s in _chain(el.src):
        if s.view == "slice":
            return None, None, f"iterates only a slice of the container ({s.extra!r})"
    v = el.src.view
    if v in ("items", "keys", "values", "elems", "indices"):
        return el.key, el.val, None
    if v == "enumerate":
        sub = el.info
        if el.src.extra is not None and not (isinstance(el.src.extra, Const) and el.src.extra.value == 0):
            return None, None, f"enumerate() starts counting at {el.src.extra!r}, so keys are not the element indices"
        if sub is not None and sub.src.view in ("elems",) and not sub.src.order:
            return sub.key, sub.val, None
        return None, None, None
    return None, None, None


def _chain(src: Any) -> List[Source]:
    out: List[Source] = []
    while isinstance(src, Source):
        out.append(src)
        src = src.base
    return out
