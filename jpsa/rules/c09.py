"""C09 — string-literal decoding."""

from __future__ import annotations

import itertools
from typing import Any
from typing import Dict
from typing import List
from typing import Optional
from typing import Tuple

from ..absctx import Unsupported
from ..absint import Interp
from ..absval import *  # noqa: F403
from ..automata import CharSet
from ..harness import describe
from ..harness import make_token
from ..harness import paths
from ..harness import real_env
from ..model import AnalysisError
from ..model import Model
from ..protocol import Report
from . import _strings
from ._strings import RFC_SIMPLE

RULE_OF = {
    "hex-digits": "R09.3",
    "surrogates": "R09.4",
    "hex-char": "R09.5",
    "escape-table": "R09.1",
    "loop": "R09.6",
    "codepoint": "R09.6",
}


def normalisation_chain(model: Model, token_type: str) -> Tuple[Optional[List[Tuple[str, str]]], Optional[str]]:
    """The replace() chain _decode_string_literal applies before unescaping (None = not a replace chain)."""
    fn = model.func("parse.Parser._decode_string_literal")
    un = model.func("parse.Parser._unescape_string")

    def body(it: Interp) -> Any:
        env = real_env(it, model)
        parser = env.attrs["parser"]
        value = it.new_str("value")
        tok = make_token(it, model, token_type, value, "tok")
        seen: Dict[str, Any] = {}

        def hook(interp: Interp, fi: Any, args: List[Any], kw: Dict[str, Any], node: Any) -> Any:
            seen["arg"] = args[1]
            seen["tok"] = args[2] if len(args) > 2 else kw.get("token")
            return interp.new_opaque("decoded")

        it.hooks[un.qualname] = hook
        r = it.call_function(fn, [parser, tok], {}, None, self_av=parser)
        return r, seen, value, tok

    runs = paths(model, body)
    if len(runs) != 1 or runs[0].kind != "return":
        return None, f"{len(runs)} paths / {runs[0].kind if runs else ''}"
    r, seen, value, tok = runs[0].value
    arg = seen.get("arg")
    if not (isinstance(r, Opaque) and r.label == "decoded"):
        return None, f"the decoded text is post-processed into {describe(r)!r} instead of being returned as is"
    chain: List[Tuple[Any, ...]] = []
    cur = arg
    while True:
        if isinstance(cur, Term) and cur.op == "strmeth" and cur.args[1] == "replace":
            a = cur.args[2]
            if len(a) != 2 or not all(isinstance(x, Const) and isinstance(x.value, str) for x in a):
                return None, "replace() with non-constant arguments"
            chain.append((a[0].value, a[1].value))
            cur = cur.args[0]
            continue
        # <regex literal>.sub(<constant>, text) / re.sub(<literal>, <constant>, text)
        if isinstance(cur, Term) and cur.op == "call" and cur.args[1] == "sub" and isinstance(cur.args[0], Term) and cur.args[0].op == "re.compile":
            pat = cur.args[0].args[0] if cur.args[0].args else None
            a = cur.args[2]
            if isinstance(pat, Const) and isinstance(pat.value, str) and len(cur.args[0].args) == 1 and len(a) == 2 and isinstance(a[0], Const) and isinstance(a[0].value, str) and not cur.args[3]:
                chain.append(("re.sub", pat.value, a[0].value))
                cur = a[1]
                continue
            return None, "regex substitution with non-constant pattern, replacement or flags"
        break
    if cur is not value:
        return None, f"the literal is transformed by {describe(arg)!r}, not by a chain of str.replace calls"
    return chain[::-1], None


def rfc_decode(body: str, quote: str) -> Optional[str]:
    """Reference decoding of the escape-free-of-\\u subset {\\\\, \\quote, raw} used by the normalisation check."""
    out = []
    i = 0
    while i < len(body):
        c = body[i]
        if c == "\\":
            if i + 1 >= len(body):
                return None
            d = body[i + 1]
            if d == "\\":
                out.append("\\")
            elif d == quote:
                out.append(quote)
            else:
                return None
            i += 2
        elif c == quote:
            return None
        else:
            out.append(c)
            i += 1
    return "".join(out)


def check_normalisation(model: Model, report: Report, rule: str) -> None:
    site = "parse.Parser._decode_string_literal"
    fn = model.func(site)
    for ttype, quote in (("SINGLE_QUOTE_STRING", "'"), ("DOUBLE_QUOTE_STRING", '"')):
        chain, why = normalisation_chain(model, ttype)
        if chain is None:
            if why and "post-processed" in why:
                report.fail(rule, site, f"normalise:{ttype}:post-processed", f"{ttype}: {why}", file=fn.file, line=fn.line)
            else:
                report.undecided(rule, site, f"{ttype}: {why}")
            continue
        bad = None
        n = 0
        for L in range(0, 6):
            for tup in itertools.product("\\'\"a", repeat=L):
                body = "".join(tup)
                want = rfc_decode(body, quote)
                if want is None:
                    continue
                n += 1
                from ._strmodel import apply_normalisation

                s = apply_normalisation(chain, body)  # str.replace: left-to-right, non-overlapping; regex literals: stdlib re (A1)
                got = rfc_decode(s, '"')
                if got != want:
                    bad = (body, s, got, want)
                    break
            if bad:
                break
        key = f"normalise:{ttype}"
        if bad:
            body, s, got, want = bad
            report.fail(rule, site, key, f"{quote}{body}{quote} is rewritten to {s!r} before unescaping, which decodes to {got!r} instead of {want!r} (replace chain {chain})", file=fn.file, line=fn.line)
        else:
            report.ok(rule, site, key, detail={"chain": chain, "bodies_checked": n})
    report.touched(site)


def check(model: Model, report: Report) -> None:
    report.rule("R09.1", "escape table: b f n r t / \\ and the own quote map to their characters; u starts a hex escape; nothing else is accepted")
    report.rule("R09.2", "the lexer accepts exactly the escapes the grammar allows for each quote style, and each of them is decodable")
    report.rule("R09.3", "hex digits: exactly 0-9 A-F a-f at each of the four positions; value = sum 16^(3-k) * digit value (linear form)")
    report.rule("R09.4", "surrogate ranges: high = D800-DBFF, low = DC00-DFFF")
    report.rule("R09.5", "\\uXXXX structure: truncated / lone low / lone high / high+non-low are rejected; non-surrogates and pairs accepted with the right index; pair arithmetic as a linear form")
    report.rule("R09.6", "every non-surrogate \\uXXXX (U+0000-U+001F included) decodes to that code point; raw characters below U+0020 are rejected; raw characters are copied unchanged; loop advances correctly")
    report.rule("R09.8", "the decoded text reaches name selectors and string literals unchanged (whole-query and filter token shapes, names/literals with blanks and upper case)")
    report.rule("R09.7", "quote normalisation of single-quoted literals is correct on every body over {\\, ', \", a} up to length 5 (exhaustive, ops are local)")
    report.assumptions += ["A1: str.replace is left-to-right non-overlapping; chr/ord are inverse on 0..0x10FFFF; str.encode() yields one byte < 128 per ASCII character"]
    report.not_decided += ["index bookkeeping outside one generic loop iteration (argued: each iteration starts at a character boundary because every branch advances past what it consumed)"]

    dm = _strings.extract_decoder(model)
    fired = set()
    for part, key, msg, fn in dm.problems:
        rule = RULE_OF.get(part, "R09.1")
        if key.endswith(":shape") or key in ("loop:shape", "loop:accumulator"):
            # the decoder is written in a way this analysis does not recognise: no verdict, not a violation
            report.undecided(rule, fn.qualname, f"{key}: {msg}")
            fired.add(rule)
            continue
        report.fail(rule, fn.qualname, key, msg, file=fn.file, line=fn.line)
        fired.add(rule)
    et = model.func("parse.Parser._decode_escape_sequence")
    # R09.1 table
    ok = True
    for c, want in RFC_SIMPLE.items():
        got = dm.simple.get(c)
        if got != want:
            report.fail("R09.1", et.qualname, f"escape:{c}", f"\\{c} decodes to {got!r}, expected {want!r}", file=et.file, line=et.line)
            ok = False
    for c in dm.simple:
        if c not in RFC_SIMPLE:
            report.fail("R09.1", et.qualname, f"escape:{c}:extra", f"\\{c} is accepted (decodes to {dm.simple[c]!r}) but is not an RFC 9535 escape", file=et.file, line=et.line)
            ok = False
    if dm.hex_escape != "u":
        report.fail("R09.1", et.qualname, "escape:u", f"hex escapes are introduced by {dm.hex_escape!r}, expected 'u'", file=et.file, line=et.line)
        ok = False
    if ok and "R09.1" not in fired:
        report.ok("R09.1", et.qualname, "escape table", detail={"table": {k: repr(v) for k, v in dm.simple.items()}, "hex": dm.hex_escape})
    # R09.3
    if "R09.3" not in fired:
        report.ok("R09.3", "parse.Parser._parse_hex_digits", "hex digit classes and value form", detail={"accepted": [d.show() for d in dm.hex_digits]})
    # R09.4
    for name, got, want in (("high", dm.high, CharSet([(0xD800, 0xDBFF)])), ("low", dm.low, CharSet([(0xDC00, 0xDFFF)]))):
        fnq = f"parse.Parser._is_{name}_surrogate"
        f = model.func(fnq)
        if got != want:
            report.fail("R09.4", fnq, f"surrogate-range:{name}", f"{name} surrogates are {got.show()}, expected {want.show()}", file=f.file, line=f.line)
        else:
            report.ok("R09.4", fnq, f"{name} surrogate range {want.show()}")
    if "R09.5" not in fired:
        report.ok("R09.5", "parse.Parser._decode_hex_char", "escape structure over 6 regions and pair arithmetic")
    # R09.6
    site = "parse.Parser._decode_escape_sequence"
    if not dm.escape_rejects.empty():
        report.fail("R09.6", site, f"escape-class-rejected:{dm.escape_rejects.show()}", f"\\uXXXX escapes of code points {dm.escape_rejects.show()} are rejected although RFC 9535 allows every non-surrogate code point to be written as an escape (e.g. $['\\u0000'])", file=et.file, line=et.line)
    else:
        report.ok("R09.6", site, "no code point is refused when written as \\uXXXX")
    ul = model.func("parse.Parser._unescape_string")
    c0 = CharSet([(0, 0x1F)])
    if dm.raw_rejects != c0:
        report.fail("R09.6", ul.qualname, f"raw-control:{dm.raw_rejects.show() or 'none'}", f"raw characters rejected are {dm.raw_rejects.show() or 'none'}, expected exactly U+0000-U+001F", file=ul.file, line=ul.line)
    else:
        report.ok("R09.6", ul.qualname, "raw characters below U+0020 are rejected, all others copied")
    # R09.2 lexer vs decoder
    for quote in ("'", '"'):
        for ctx in ("bracket", "filter"):
            try:
                lx = _strings.analyse_lex_string(model, quote, ctx)
            except Unsupported as err:
                report.undecided("R09.2", "lex.lex_string_factory", f"{quote}{ctx}: {err}")
                continue
            site2 = f"lex.{lx['state']}"
            good = True
            for k, msg in lx["problems"]:
                report.fail("R09.2", site2, k, msg)
                good = False
            want = CharSet.of("bfnrtu/\\" + quote)
            if lx["escapes"] != want:
                extra, missing = lx["escapes"] - want, want - lx["escapes"]
                report.fail("R09.2", site2, f"escape-set:{quote}", f"lexer accepts escapes {lx['escapes'].show()}; unexpected {extra.show() or '-'}, missing {missing.show() or '-'}")
                good = False
            undec = set()
            for c in lx["escapes"].iv:
                for cp in range(c[0], c[1] + 1):
                    ch = chr(cp)
                    if ch == quote or ch in dm.simple or ch == dm.hex_escape:
                        continue
                    undec.add(ch)
            if undec:
                report.fail("R09.2", site2, f"undecodable:{''.join(sorted(undec))}", f"lexer accepts escapes {sorted(undec)} that the parser cannot decode")
                good = False
            raw_want = CharSet.any() - CharSet.of("\\" + quote)
            if lx["raw"] != raw_want:
                report.fail("R09.2", site2, f"raw-set:{quote}", f"lexer's raw characters are {lx['raw'].show()}, expected everything except the quote and backslash")
                good = False
            want_tok = "SINGLE_QUOTE_STRING" if quote == "'" else "DOUBLE_QUOTE_STRING"
            if lx["info"].get("emits") != want_tok or not lx["info"].get("value_ok"):
                report.fail("R09.2", site2, f"token:{quote}", f"closing quote emits {lx['info'].get('emits')} (value is the text between the quotes: {lx['info'].get('value_ok')}), expected {want_tok}")
                good = False
            if good:
                report.ok("R09.2", site2, f"lexer escape/raw sets for {quote} in {ctx}", detail={"escapes": lx["escapes"].show(), "paths": lx["paths"]})
    check_normalisation(model, report, "R09.7")
    from . import _shapes

    _shapes.check_query_trees(model, report, "R09.8")
    _shapes.check_trees(model, report, "R09.8")
    report.touched("parse.Parser._parse_hex_digits", "parse.Parser._decode_hex_char", "parse.Parser._decode_escape_sequence", "parse.Parser._unescape_string", "parse.Parser._string_from_codepoint", "lex.lex_string_factory.<locals>._lex_string")
    report.extra["explanation"] = "C09: decoder tables extracted by abstract interpretation with symbolic characters, linear forms for hex/pair arithmetic, octagon for index/length regions; lexer string state analysed as one generic iteration."
    report.extra["decoder_model"] = {"simple": {k: repr(v) for k, v in dm.simple.items()}, "high": dm.high.show(), "low": dm.low.show(), "raw_rejects": dm.raw_rejects.show(), "escape_rejects": dm.escape_rejects.show()}
