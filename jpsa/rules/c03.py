"""C03 — every valid RFC 9535 query is accepted (lexical layer; see DESIGN 5/C03-C04)."""

from __future__ import annotations

from ..model import Model
from ..protocol import Report
from . import _lexrules
from . import _lexstates


def check_argument_prefixes(model: Model, report: Report, rule: str) -> None:
    """A function argument may be any literal, query, logical expression or call: same first tokens as a filter."""
    from ..absval import BoundMethod, EnumV, Inst, PyDict
    from ..harness import paths, real_env

    def body(it):
        env = real_env(it, model)
        p = env.attrs["parser"]
        return p.attrs.get("token_map"), p.attrs.get("function_argument_map")

    runs = paths(model, body)
    site = "parse.Parser.__init__"
    if len(runs) != 1 or runs[0].kind != "return":
        report.undecided(rule, site, "cannot evaluate Parser.__init__")
        return
    tm, fm = runs[0].value
    if not isinstance(tm, PyDict) or not isinstance(fm, PyDict):
        report.undecided(rule, site, "token_map / function_argument_map are not dict literals")
        return

    def table(d):
        return {d.keys_av[k].member: (v.fi.qualname if isinstance(v, BoundMethod) else repr(v)) for k, v in d.items.items() if isinstance(d.keys_av[k], EnumV)}

    T, F = table(tm), table(fm)
    missing = {k: v for k, v in T.items() if k not in F}
    differ = {k: (F[k], v) for k, v in T.items() if k in F and F[k] != v}
    if missing:
        for k in sorted(missing):
            report.fail(rule, site, f"argument-prefix:{k}", f"a function argument may not start with {k} although a filter expression may (function_argument_map lacks {k}); e.g. f(!@.a) / f((@.a)) are refused")
    for k, (a, b) in sorted(differ.items()):
        report.fail(rule, site, f"argument-parser:{k}", f"function arguments starting with {k} are parsed by {a}, filters by {b}")
    if not missing and not differ:
        report.ok(rule, site, "function_argument_map covers every filter-expression prefix", detail={"prefixes": sorted(F)})


def check(model: Model, report: Report) -> None:
    for k, v in {
        "L1": "blank space recogniser = {SP,HT,LF,CR}+",
        "L2": "member-name-shorthand language",
        "L3": "index / slice component lexemes accepted at each of the four consumption sites ⊇ RFC int",
        "L4": "number literal lexemes (INT ∪ FLOAT through regex, parser predicates and converter domains) ⊇ RFC number",
        "L5": "function-name language",
        "L6": "string literal bodies for both quote styles (lexer scanner x decoder tables) ⊇ RFC string-literal",
        "L7": "fixed lexemes (operators, keywords, punctuation) produce their tokens",
        "L9": "blank space is skipped wherever the grammar allows it",
        "G": "valid token shapes (grouping, negation, comparisons, selections, slices) are accepted by the interpreted parser",
        "GRID": "every sequence of filter tokens (<= 4 quick / 5 thorough, balanced parentheses) and of bracketed-selection tokens that the RFC grammar and typing rules accept is accepted by the interpreted parser",
        "L11": "lexer state transitions and bracket / function-call bookkeeping per generic iteration (what scans what follows each lexeme, when a filter ends, how parentheses of calls and groups are matched)",
        "S": "every query made of name / index segments only (any index, any name) is recognised as singular, so that it may be compared and passed as a ValueType argument",
        "L10": "function arguments may start with every token a filter expression may start with",
        "L12": "every RFC function name followed by '(' reaches the lexer arm that emits FUNCTION: no earlier test of the ladder (a keyword accepted by prefix, a number pattern) takes such a text away",
    }.items():
        report.rule(f"R03.{k}", v)
    report.assumptions += ["A1: stdlib re semantics for the constructs used (classes, ranges, greedy repeats, alternation); int()/float() literal domains"]
    report.not_decided += ["acceptance of the context-free structure as a whole (Pratt loop); covered only through the token shapes of C05/C07/C04 rules"]
    _lexrules.lexical_layer(model, report, "b-only", "R03")
    _lexstates.check_token_tables(model, report, "R03.L7", "b-only")
    _lexstates.check_blank_positions(model, report, "R03.L9", "b-only")
    _lexstates.check_transitions(model, report, "R03.L11")
    _lexstates.check_function_dispatch(model, report, "R03.L12")
    check_argument_prefixes(model, report, "R03.L10")
    from .c05 import check_singular

    check_singular(model, report, "R03.S", only=True)
    from .c05 import check_typing_table

    report.rule("R03.TY", "every well-typed function argument (3 parameter types x 16 argument classes x parameter positions x any registry) is accepted by check_well_typedness: the accepting half of C05's typing table")
    check_typing_table(model, report, "R03.TY", "R03.TY", only_valid=True)
    from . import _shapes

    _shapes.check_shapes(model, report, "R03.G", want_valid=True)
    from . import _tokgrid

    _tokgrid.check_grid(model, report, "R03.GRID", want_valid=True)
    report.extra["explanation"] = "C03: regular-language inclusion RFC terminal ⊆ accepted lexemes, by automata product over an interval alphabet, per token position; lexer states analysed as one generic iteration."
