"""C01 — structural selection (segments; name/index/slice/wildcard selectors).

Every rule compares the *trace* the abstract interpreter derives for an anchored
generator (loops over unbounded data are run once on a generic element and
recorded as a foreach event) with the trace RFC 9535 prescribes for the same
abstract cell.  All syntactic paths count, so an edit that only misbehaves for
special inputs is still seen.
"""

from __future__ import annotations

from typing import Any
from typing import List

from ..absctx import Unsupported
from ..absint import Interp
from ..absval import *  # noqa: F403
from ..harness import describe
from ..harness import make_node
from ..harness import paths
from ..model import AnalysisError
from ..model import Model
from ..protocol import Report
from . import _segrules
from . import _selrules
from ._sel import *  # noqa: F403


def check_finditer(model: Model, report: Report, rule: str) -> None:
    ci = model.cls("query.JSONPathQuery")
    fn = ci.find_method("finditer")
    if fn is None:
        raise AnalysisError("anchor vanished: JSONPathQuery.finditer")

    def body(it: Interp) -> Any:
        q = it.harness_inst(ci, "query")
        q.attrs["env"] = make_env(it, model, None)
        segs = it.new_opaque("query.segments")
        segs.children["__elem_hint__"] = ClassV(model.cls("segments.JSONPathSegment"))
        q.attrs["segments"] = segs
        v = it.new_sym("value")
        r = it.call_function(fn, [q, v], {}, None, self_av=q)
        return r, q, v, segs, it

    cell = "pipeline:fold-segments-in-order"
    try:
        runs = paths(model, body)
    except Unsupported as err:
        report.undecided(rule, fn.qualname, f"{cell}: {err}")
        return
    good = True
    for run in runs:
        prob = None
        ev = None
        if run.kind == "raise":
            prob = f"raises {run.exc_name()}"
        else:
            r, q, v, segs, it = run.value
            if isinstance(r, GenV):
                # finditer itself written as a generator: run it and look at its trace
                prob = "finditer is a generator function; the fold shape cannot be read from its return value"
                report.undecided(rule, fn.qualname, prob)
                return
            loops = [e for e in run.ctx.log if isinstance(e, Ev) and e.kind == "foreach"]
            others = [e for e in run.ctx.log if isinstance(e, Ev) and e.kind in ("mutate",)]
            if others:
                prob = f"mutates {describe(others[0].value)!r}"
                ev = others[0]
            elif len(loops) != 1:
                prob = f"{len(loops)} loops over the segments, expected exactly one"
            else:
                fe = loops[0]
                ev = fe
                if base_of(fe.src) is not segs:
                    prob = f"iterates {fe.src!r}, expected self.segments"
                elif order_problem(fe.src):
                    prob = "segments: " + str(order_problem(fe.src))
                else:
                    carried = [e for e in fe.body if e.kind == "carried"]
                    rest = [e for e in fe.body if e.kind not in ("carried",)]
                    if rest:
                        prob = f"loop body does more than rebinding the nodes: {show_trace(rest)}"
                    elif len(carried) != 1:
                        prob = f"loop carries {[c.value for c in carried]!r}, expected exactly the running nodelist"
                    else:
                        t = carried[0].info
                        if t is not r:
                            prob = "the value returned is not the nodelist produced by the last segment"
                        elif not (isinstance(t, Term) and t.op == "call" and t.args[1] == "resolve" and t.args[0] is fe.elem.target):
                            prob = f"nodes are rebound to {describe(t)!r}, expected segment.resolve(nodes)"
                        else:
                            args = t.args[2]
                            init = args[0] if len(args) == 1 else None
                            kind, payload = ("none", None)
                            if init is not None:
                                try:
                                    kind, payload = it.host.iterate(init, None)
                                except Exception:  # noqa: BLE001
                                    kind = "none"
                            if kind != "concrete" or len(payload) != 1:
                                prob = f"segment.resolve is given {describe(init)!r}, expected the running nodelist starting from exactly one root node"
                            else:
                                n0 = payload[0]
                                if not (isinstance(n0, Inst) and n0.cls.name == "JSONPathNode"):
                                    prob = f"initial element is {describe(n0)!r}, not a JSONPathNode"
                                elif n0.attrs.get("value") is not v:
                                    prob = "root node's value is not the query argument itself"
                                elif n0.attrs.get("root") is not v:
                                    prob = "root node's root is not the query argument"
                                else:
                                    loc = n0.attrs.get("location")
                                    if not (isinstance(loc, PyTuple) and len(loc.items) == 0):
                                        prob = f"root node's location is {describe(loc)!r}, expected ()"
        if prob:
            f, l = ev_site(ev, (fn.file, fn.line))
            report.fail(rule, fn.qualname, cell, prob, file=f, line=l, what=cell)
            good = False
    if good:
        report.ok(rule, fn.qualname, cell, detail={"paths": len(runs)})
    report.touched(fn.qualname)


def check_new_child(model: Model, report: Report, rule: str) -> None:
    ci = model.cls("node.JSONPathNode")
    fn = ci.find_method("new_child")
    if fn is None:
        raise AnalysisError("anchor vanished: JSONPathNode.new_child")

    def body(it: Interp) -> Any:
        v = it.new_sym("V")
        node = make_node(it, model, v, "node")
        val = it.new_sym("child-value")
        key = it.new_str("key")
        r = it.call_function(fn, [node, val, key], {}, None, self_av=node)
        return r, node, val, key

    cell = "new_child:value-identity,location-extension,root-propagation"
    try:
        runs = paths(model, body)
    except Unsupported as err:
        report.undecided(rule, fn.qualname, f"{cell}: {err}")
        return
    good = True
    for run in runs:
        if run.kind == "raise":
            report.fail(rule, fn.qualname, cell, f"raises {run.exc_name()}", file=fn.file, line=fn.line)
            good = False
            continue
        r, node, val, key = run.value
        p = child_problem(r, node, val, key)
        if p:
            report.fail(rule, fn.qualname, cell, p, file=fn.file, line=fn.line)
            good = False
    if good:
        report.ok(rule, fn.qualname, cell)
    report.touched(fn.qualname)


def check(model: Model, report: Report) -> None:
    report.rule("R01.1", "JSONPathQuery.finditer folds self.segments in order starting from one root node (value, (), value)")
    report.rule("R01.6", "compile(query) = JSONPathQuery(env=self, segments=tuple(self.parser.parse(TokenStream(tokenize(query))))) on every path, whatever state earlier calls left on the environment or its parser")
    report.rule("R01.2", "child segment: for each input node, for each selector in order: yield from selector.resolve(node)")
    report.rule("R01.3", "descendant segment: input node > visited node > selector nesting; visitor chosen by the mode flag and started with default depth")
    report.rule("R01.4", "deterministic visitor: node first (pre-order), children in document order, recursion iff child is an array/object, child node = new_child(child, key)")
    report.rule("R01.5", "selector traces per kind of node value: name on objects, index/slice on arrays, wildcard on both, nothing on scalars; exact key lookup; children paired (value, key)")
    report.rule("R01.8", "parse side: 16 whole-query token shapes build exactly the segments (child/descendant) and selectors (raw shorthand name, decoded quoted name, signed index, slice components, wildcard, filter) the grammar describes, in token order")
    report.rule("R01.10", "deterministic traversal is the default mode of every environment")
    report.rule("R01.9", "JSONPathNode.new_child keeps the value object, extends the location by exactly the key, propagates root")
    report.assumptions += [
        "A1: CPython iteration order of dict views, enumerate, list; A2: slice.indices/list[slice] implement RFC 9535 slice semantics",
        "composition of the per-construct shapes into the RFC nodelist for whole queries is argued (DESIGN 5/C01), not computed",
    ]
    report.not_decided += ["parser side beyond the lexical rules of C03/C04 and the query/token shapes of R01.8", "arithmetic of index/slice (C07)"]
    check_finditer(model, report, "R01.1")
    from . import _pipeline

    _pipeline.check_compile(model, report, "R01.6")
    _segrules.check_child_segment(model, report, "R01.2")
    _segrules.check_descendant_nesting(model, report, "R01.3")
    _segrules.check_visit(model, report, "R01.4")
    _selrules.check_name(model, report, "R01.5")
    _selrules.check_index(model, report, "R01.5")
    _selrules.check_slice(model, report, "R01.5")
    _selrules.check_wildcard(model, report, "R01.5", nondet=False)
    check_new_child(model, report, "R01.9")
    # a valid filter-free query that is refused returns no nodelist at all: the lexical layer (blank space, shorthand
    # and quoted names, index/slice lexemes, fixed lexemes) accepts at least the RFC's language (shared with C03)
    from . import _lexrules
    from . import _lexstates

    for k_, v_ in {"L1": "blank space", "L2": "member-name shorthand", "L3": "index and slice lexemes", "L6": "quoted names", "L7": "fixed lexemes", "L9": "blank space positions"}.items():
        report.rule(f"R01.{k_}", f"every spelling the RFC allows for {v_} in a filter-free query is accepted (C03's rule, restricted to the refuses-too-much direction)")
    _lexrules.lexical_layer(model, report, "b-only", "R01", only=("L1", "L2", "L3", "L6"))
    _lexstates.check_token_tables(model, report, "R01.L7", "b-only")
    _lexstates.check_blank_positions(model, report, "R01.L9", "b-only")
    from . import _shapes

    _shapes.check_query_trees(model, report, "R01.8")
    # slice components: each token of the 12 slice shapes reaches start / stop / step unchanged, whatever its value
    from . import c07 as _c07

    _c07.check_parse_slice(model, report, "R01.8")
    # the name a quoted name selector carries is the decoded literal: decoding problems that change the
    # decoded value (not refusals, which are C03, nor over-acceptance, which is C04/C09) select other members
    from . import _strings

    try:
        dm = _strings.extract_decoder(model)
    except Unsupported as err:
        report.undecided("R01.8", "parse.Parser._decode_string_literal", f"decoder tables: {err}")
        dm = None
    if dm is not None:
        n_val = 0
        for _part, k, msg, dfn in dm.problems:
            if any(x in k for x in ("rejected", "raises", "non-hex", "unbounded", "never-accepts")):
                continue
            n_val += 1
            report.fail("R01.8", dfn.qualname, f"decoded-name:{k}", f"a quoted name selector does not select the member the literal names: {msg}", file=dfn.file, line=dfn.line)
        if not n_val:
            report.ok("R01.8", "parse.Parser._decode_string_literal", "decoder tables map every escape form to the code point it denotes (shared with C09)")
    # R01.10 the deterministic mode is the default (class attribute) and the default environment uses it
    import ast as _ast

    env = model.cls("environment.JSONPathEnvironment")
    nd = env.attrs.get("nondeterministic")
    if isinstance(nd, _ast.Constant) and nd.value is False:
        report.ok("R01.10", env.qualname, "nondeterministic defaults to False")
    else:
        report.fail("R01.10", env.qualname, "default-mode", f"JSONPathEnvironment.nondeterministic defaults to {_ast.unparse(nd) if nd is not None else None}: the default environment would not visit object members in the mapping's own order")
    init = env.methods.get("__init__")
    if init is not None:
        for n in _ast.walk(init.node):
            if isinstance(n, (_ast.Assign, _ast.AnnAssign)):
                tg = n.targets if isinstance(n, _ast.Assign) else [n.target]
                for t in tg:
                    if isinstance(t, _ast.Attribute) and t.attr == "nondeterministic":
                        report.fail("R01.10", init.qualname, "mode-set-in-init", "the constructor overrides the nondeterministic flag", file=init.file, line=n.lineno)
    report.extra["explanation"] = (
        "C01: traces of the 4 structural selectors x 7 kinds of node value (x index regions / slice-step regions), "
        "both segments, the deterministic visitor (x depth regions), the segment fold and new_child, each compared with the RFC shape."
    )
