#!/usr/bin/env python3
"""Regenerate MANIFEST.json from tools/manifest_table.json (claimed checks) + properties.jsonl."""
import json
from pathlib import Path

V = Path(__file__).resolve().parent.parent
props = [json.loads(l) for l in open(V / "properties.jsonl")]
table = json.load(open(V / "tools" / "manifest_table.json"))
checks = []
na = []
for p in props:
    pid = p["id"]
    t = table.get(pid)
    if t and t.get("claimed"):
        checks.append({
            "property_id": pid,
            "quick_cmd": f"./check {pid} --tier quick",
            "thorough_cmd": f"./check {pid} --tier thorough",
            "evidence_file": f"evidence/{pid}.json",
            "replay_cmd_template": "./check --replay {path}",
            "engine": "jpsa",
            "level_claimed": {"category": "other", "text": t["text"], "design_ref": t.get("design_ref", f"DESIGN.md section 5 ({pid})")},
            "level_note": t["note"],
            "technique": t["technique"],
        })
    else:
        na.append({"property_id": pid, "reason": (t or {}).get("reason", "check not built yet (work in progress; see DESIGN.md section 5)")})
m = {
    "version": 1,
    "setup_cmd": "true",
    "hooks": {
        "guard": "JSONPATH_RFC9535_VERIF",
        "enable": "no hooks are needed: the checks read /repo's source text only and never import or run the package",
        "baseline_off_cmd": "cd /repo && /venv/bin/python -m pytest -ra -q -p no:cacheprovider --timeout=900 --continue-on-collection-errors",
        "source_commits": [],
        "add_only": True,
    },
    "engines": [{
        "name": "jpsa",
        "path": "jpsa/",
        "serves_properties": [c["property_id"] for c in checks],
        "kind_free_text": "ast-based static analysis of /repo/jsonpath_rfc9535: finite-domain abstract interpretation (kinds, linear integer forms + octagon, symbolic characters) with exhaustive path enumeration, regular-language comparison of token recognisers, effect/escape, may-raise and delegation-shape analyses. Never imports or runs the package.",
    }],
    "checks": checks,
    "not_applicable": na,
    "notes": "All checks are static: they parse /repo's current working tree with ast on every run. Exit 0 = all obligations discharged (known findings printed as KNOWN-FINDING), 1 = VIOLATION, 2 = ANALYSIS-ERROR (construct outside the analysed subset or vanished anchor; never a silent pass). known_findings.json lists genuine defects of the pinned tree that are recorded rather than repaired.",
}
json.dump(m, open(V / "MANIFEST.json", "w"), indent=1, ensure_ascii=False)
print("checks:", [c["property_id"] for c in checks], "n/a:", len(na))
