#!/usr/bin/env python3
"""Development-time helper (never called by a check): move the violations of the
last run of a property from evidence/replay/ into known_findings.json.

usage: tools/triage.py <Cnn> <finding-id e.g. F8> "<what fails>" [key-substring]
"""
import glob
import json
import sys
from pathlib import Path

V = Path(__file__).resolve().parent.parent
prop, fid, why = sys.argv[1], sys.argv[2], sys.argv[3]
sub = sys.argv[4] if len(sys.argv) > 4 else ""
kf = json.load(open(V / "known_findings.json"))
have = {(k["property"], k["rule"], k["site"], k["key"]) for k in kf["known"]}
n = 0
for p in sorted(glob.glob(str(V / "evidence" / "replay" / f"{prop}-*.json"))):
    r = json.load(open(p))
    if sub and sub not in r["key"] and sub not in r["rule"]:
        continue
    ident = (r["property"], r["rule"], r["site"], r["key"])
    if ident in have:
        continue
    kf["known"].append({"property": r["property"], "rule": r["rule"], "site": r["site"], "key": r["key"],
                        "finding": fid, "what": why, "example": r["message"]})
    n += 1
json.dump(kf, open(V / "known_findings.json", "w"), indent=1, ensure_ascii=False)
print("added", n)
